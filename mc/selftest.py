"""setup_cmd: nothing to compile - verify the interpreter, the tree under test and the framework import."""
import importlib, json, os, sys

def main():
    from . import runner
    sr = runner.import_symmray()
    import numpy, autoray
    here = runner.VERIF
    with open(os.path.join(here, "MANIFEST.json")) as f:
        man = json.load(f)
    for c in man["checks"]:
        importlib.import_module("mc.checks." + c["property_id"].lower())
    with open(os.path.join(here, "known_findings.json")) as f:
        json.load(f)
    print("selftest ok: symmray", sr.__file__, "numpy", numpy.__version__, "autoray", autoray.__version__, "checks", len(man["checks"]))

main()
