"""Bounded exhaustive exploration harness for jcmgray/symmray (see /verif/DESIGN.md)."""
