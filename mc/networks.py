"""Small fermionic / abelian tensor networks: descriptors, enumeration of
topologies, and exhaustive exploration of contraction routes on the real code
(shared by C04 and C10)."""

import itertools

import numpy as np

from . import groups as G
from . import ref_graded as RG
from .arrays import arrd, build, index_key, conj_ixd, duals_of, embed, exact_equal, frame_of, gt_of, ixd, oddpos_key, sparsity_patterns, tables_of

# topology: list of tensors, each a tuple of leg names; a name on two tensors is a bond, on one a dangling leg
TOPOLOGIES = {
    "pair1": (("a",), ("a",)),
    "pair2": (("a", "b"), ("a", "b")),
    "pair1-d": (("x", "a"), ("a", "y")),
    "pair2-d": (("a", "x", "b"), ("b", "a")),
    "chain3": (("a",), ("a", "b"), ("b",)),
    "chain3-d": (("x", "a"), ("a", "b"), ("b", "y")),
    "chain3-dm": (("a",), ("a", "m", "b"), ("b",)),
    "triangle": (("a", "c"), ("a", "b"), ("b", "c")),
    "triangle-d": (("a", "x", "c"), ("a", "b"), ("b", "c")),
    "triangle-dd": (("a", "x", "c"), ("b", "a"), ("c", "y", "b")),
    "chain4": (("a",), ("a", "b"), ("b", "c"), ("c",)),
    "chain4-d": (("x", "a"), ("a", "b"), ("b", "c"), ("c", "y")),
    "cycle4": (("a", "d"), ("a", "b"), ("b", "c"), ("c", "d")),
}


def leg_info(topo):
    occ = {}
    for t, legs in enumerate(topo):
        for k, nm in enumerate(legs):
            occ.setdefault(nm, []).append((t, k))
    bonds = sorted(nm for nm, o in occ.items() if len(o) == 2)
    dangling = sorted(nm for nm, o in occ.items() if len(o) == 1)
    return occ, bonds, dangling


def network_descs(sym, topo, tables, orient, danglers, charges, labels, sparsity="full", phases="none", fill_seed=0, dtype="float64"):
    """tensor descriptors for one network.
    tables: dict leg name -> charge->size dict; orient: dict bond -> bool (direction on the first tensor);
    danglers: dict dangling leg -> bool direction; charges: per tensor total charge; labels: per tensor label or None"""
    occ, bonds, dangling = leg_info(topo)
    descs = []
    for t, legs in enumerate(topo):
        idx = []
        for k, nm in enumerate(legs):
            if nm in orient:
                first = occ[nm][0] == (t, k)
                dual = orient[nm] if first else (not orient[nm])
            else:
                dual = danglers[nm]
            idx.append(ixd(tables[nm], dual))
        idx = tuple(idx)
        valid = G.valid_sectors(sym, tables_of(idx), duals_of(idx), charges[t])
        pats = sparsity_patterns(valid, "probe") if sparsity != "full" else [tuple(valid)]
        stored = pats[sparsity % len(pats)] if sparsity != "full" else pats[0]
        odd = G.parity(sym, charges[t]) == 1
        ph = tuple(sorted(stored)[1::2]) if phases == "some" else ()
        descs.append(arrd(sym, idx, charges[t], stored, ferm=True, phases=ph, oddpos=(labels[t] if odd else None),
                          dtype=dtype, fill=("perm", 1 + 40 * t, fill_seed + t)))
    return descs


# --------------------------------------------------------------------------- #
# route exploration on the real code


class Node:
    __slots__ = ("arr", "legs", "tree")

    def __init__(self, arr, legs, tree=None):
        self.arr = arr
        self.legs = tuple(legs)
        self.tree = tree


MATMUL_MISMATCH = []


def shared(n1, n2):
    return [nm for nm in n1.legs if nm in n2.legs]


def contract_nodes(sr, n1, n2, names, mode, cache=None):
    """tensordot n1 with n2 over the bond names listed (in that order)"""
    tree = ("C", n1.tree, n2.tree, tuple(names), mode)
    if cache is not None and tree in cache:
        return cache[tree]
    ax1 = tuple(n1.legs.index(nm) for nm in names)
    ax2 = tuple(n2.legs.index(nm) for nm in names)
    c = sr.tensordot(n1.arr, n2.arr, (ax1, ax2), mode=mode, preserve_array=True)
    if mode == "blockwise" and len(names) == 1 and n1.arr.ndim <= 2 and n2.arr.ndim <= 2 and ax1 == (n1.arr.ndim - 1,) and ax2 == (0,):
        # the same step through the matrix-product entry point (vector.vector, matrix.vector, matrix.matrix)
        try:
            m = n1.arr @ n2.arr
            if c.ndim == 0:
                mv, cv = complex(m), complex(embed(c))
                ok = abs(mv - cv) <= 1e-12 * (1 + abs(cv))
            else:
                ok = (
                    getattr(m, "ndim", -1) == c.ndim
                    and m.charge == c.charge
                    and tuple(index_key(i) for i in m.indices) == tuple(index_key(i) for i in c.indices)
                    and (not c.fermionic or oddpos_key(m) == oddpos_key(c))
                    and exact_equal(embed(m), embed(c))
                )
            if not ok and len(MATMUL_MISMATCH) < 20:
                MATMUL_MISMATCH.append(f"{n1.legs} @ {n2.legs}: the matrix product differs from tensordot over {names}")
        except Exception as e:  # noqa
            if len(MATMUL_MISMATCH) < 20:
                MATMUL_MISMATCH.append(f"{n1.legs} @ {n2.legs}: raised {type(e).__name__}: {e}")
    legs = [nm for nm in n1.legs if nm not in names] + [nm for nm in n2.legs if nm not in names]
    node = Node(c, legs, tree)
    if cache is not None:
        cache[tree] = node
    return node


def trace_node(node, nm, cache=None):
    """trace the two legs named nm of a single node with einsum"""
    tree = ("T", node.tree, nm)
    if cache is not None and tree in cache:
        return cache[tree]
    letters = {}
    lhs = []
    k = 0
    for l in node.legs:
        if l not in letters:
            letters[l] = "abcdefghijkl"[k]
            k += 1
        lhs.append(letters[l])
    rhs_legs = [l for l in node.legs if l != nm]
    eq = "".join(lhs) + "->" + "".join(letters[l] for l in rhs_legs)
    c = node.arr.einsum(eq, preserve_array=True)
    new = Node(c, rhs_legs, tree)
    if cache is not None:
        cache[tree] = new
    return new


def transposed(node, perm):
    perm = tuple(perm)
    return Node(node.arr.transpose(perm), [node.legs[p] for p in perm], ("P", node.tree, perm))


def pre_variants(node, level):
    """menu of fermionic pre-transposes applied to an operand before contracting"""
    n = node.arr.ndim
    ident = tuple(range(n))
    out = [node]
    if level >= 1 and n >= 2:
        out.append(transposed(node, ident[::-1]))
    if level >= 2 and n >= 3:
        out.append(transposed(node, ident[1:] + ident[:1]))
    return out


def explore_routes(sr, nodes, out_legs, opts, counter, results, trail=(), cache=None, seen=None, last=None):
    """depth-first enumeration of every contraction route (= every distinct contraction tree with its per-step
    variants; interleavings of independent contractions are identical computations and are visited once).
    Terminal values are collected in ``results`` as (array, tree)."""
    if cache is None:
        cache, seen = {}, set()
        for i, nd in enumerate(nodes):
            if nd.tree is None:
                nd.tree = ("L", i)
    key = frozenset(nd.tree for nd in nodes)
    if key in seen:
        return
    seen.add(key)
    if len(nodes) == 1 and not _dup(nodes[0]):
        node = nodes[0]
        perm = tuple(node.legs.index(nm) for nm in out_legs)
        arr = node.arr.transpose(perm) if len(perm) > 1 and perm != tuple(range(len(perm))) else node.arr
        results.append((arr, node.tree))
        return
    # a node with a repeated leg name must be traced
    for i, nd in enumerate(nodes):
        if _dup(nd):
            for nm in sorted({l for l in nd.legs if nd.legs.count(l) == 2}):
                counter["trace"] += 1
                new = trace_node(nd, nm, cache)
                explore_routes(sr, nodes[:i] + [new] + nodes[i + 1 :], out_legs, opts, counter, results, (), cache, seen, new.tree)
            return
    for i, j in itertools.permutations(range(len(nodes)), 2):
        n1, n2 = nodes[i], nodes[j]
        sh = shared(n1, n2)
        if not sh:
            continue
        if not opts["both_orders"] and i > j:
            continue
        if opts.get("caterpillar") and last is not None and last not in (n1.tree, n2.tree):
            # only grow the most recently created node (linear contraction orders from every starting pair)
            continue
        rest = [nd for k, nd in enumerate(nodes) if k not in (i, j)]
        listings = list(itertools.permutations(sh)) if opts["listings"] else [tuple(sh)]
        partial = []
        if opts["partial"] and len(sh) >= 2:
            partial = [(nm,) for nm in sh]
        for v1 in pre_variants(n1, opts["pre"]):
            for v2 in pre_variants(n2, opts["pre"] if opts["pre_both"] else 0):
                for mode in opts["modes"]:
                    for names in listings + partial:
                        counter["contract"] += 1
                        new = contract_nodes(sr, v1, v2, names, mode, cache)
                        explore_routes(sr, rest + [new], out_legs, opts, counter, results, (), cache, seen, new.tree)


def _dup(node):
    return len(set(node.legs)) != len(node.legs)


def reference_value(arrs, topo, out_legs):
    """one-shot R-graded evaluation of the whole network"""
    g = RG.network([gt_of(a) for a in arrs], [tuple(l) for l in topo], list(out_legs))
    return g


def route_set_failures(sr, arrs, topo, out_legs, opts, with_reference=True):
    """returns (failures [(kind, detail)], number of routes, number of contractions)"""
    fails = []
    nodes = [Node(a, legs) for a, legs in zip(arrs, topo)]
    counter = {"contract": 0, "trace": 0}
    results = []
    del MATMUL_MISMATCH[:]
    try:
        explore_routes(sr, nodes, list(out_legs), opts, counter, results)
    except Exception as e:
        return [(f"route-raised-{type(e).__name__}", str(e))], 0, counter["contract"]
    for det in MATMUL_MISMATCH:
        fails.append(("matmul-vs-tensordot", det))
    if not results:
        return [], 0, counter["contract"]
    occ = {}
    for t, legs in enumerate(topo):
        for k, nm in enumerate(legs):
            occ.setdefault(nm, (t, k))
    frame = tuple(frame_of(arrs[occ[nm][0]])[occ[nm][1]] for nm in out_legs)
    vals = []
    for arr, trail in results:
        try:
            vals.append((embed(arr, frame), oddpos_key(arr), tuple(arr.duals), arr.charge, trail))
        except (KeyError, ValueError) as e:
            fails.append(("route-result-frame", f"{e!r} along {trail}"))
    if not vals:
        return fails, len(results), counter["contract"]
    v0 = vals[0]
    for v in vals[1:]:
        if not exact_equal(v[0], v0[0]):
            fails.append(("routes-differ/value", f"route {v[4]} differs from route {v0[4]}"))
            break
    for v in vals[1:]:
        if v[1] != v0[1]:
            fails.append(("routes-differ/labels", f"labels {v[1]} along {v[4]} vs {v0[1]} along {v0[4]}"))
            break
    for v in vals[1:]:
        if v[2] != v0[2] or v[3] != v0[3]:
            fails.append(("routes-differ/charge-or-directions", f"{v[2:4]} vs {v0[2:4]}"))
            break
    if with_reference:
        ref = reference_value(arrs, topo, out_legs)
        if not exact_equal(v0[0], ref.arr):
            fails.append(("reference/value", f"route {v0[4]} differs from the one-shot graded evaluation of the network"))
        if tuple(v0[1]) != tuple(ref.labels):
            fails.append(("reference/labels", f"{v0[1]} vs {ref.labels}"))
    return fails, len(results), counter["contract"]
