"""E-sched: cooperative scheduler over real threads (DESIGN 5 C15c).

Every thread body runs in a real ``threading.Thread``; a ``sys.settrace``
tracer makes every *line* event inside the library's source files a scheduling
point (optionally every *opcode* in chosen critical functions); exactly one
thread holds the baton at any time.  ``explore`` enumerates schedules with
iterative preemption bounding: a schedule is the list of choices (index into
the canonical enabled list: running thread first if still enabled, then
ascending ids) at every point; unspecified choices default to 0 (= keep
running / lowest id).  Replaying a prefix that does not fit is a hard error."""

import sys
import threading


class ReplayDivergence(RuntimeError):
    pass


class Sched:
    def __init__(self, bodies, choices, trace_prefix, opcode_funcs=(), max_steps=200000):
        self.bodies = bodies
        self.prefix = trace_prefix
        self.choices = list(choices)
        self.n = len(bodies)
        self.sems = [threading.Semaphore(0) for _ in range(self.n)]
        self.main = threading.Semaphore(0)
        self.done = [False] * self.n
        self.results = [None] * self.n
        self.errors = [None] * self.n
        self.trace = []  # (running_before, enabled order, choice index, point kind)
        self.step = 0
        self.opcode_funcs = frozenset(opcode_funcs)
        self.max_steps = max_steps
        self.where = [None] * self.n

    def _tracer(self, tid):
        opfuncs = self.opcode_funcs

        def local(frame, event, arg):
            if event == "line" or event == "opcode":
                self.where[tid] = (frame.f_code.co_name, frame.f_lineno, event)
                self.point(tid)
            return local

        def glob(frame, event, arg):
            if event == "call" and frame.f_code.co_filename.startswith(self.prefix):
                if frame.f_code.co_name in opfuncs:
                    frame.f_trace_opcodes = True
                return local
            return None

        return glob

    def point(self, tid):
        self.main.release()
        self.sems[tid].acquire()

    def _run(self, tid):
        self.sems[tid].acquire()
        sys.settrace(self._tracer(tid))
        try:
            self.results[tid] = self.bodies[tid]()
        except BaseException as e:  # noqa
            self.errors[tid] = e
        finally:
            sys.settrace(None)
            self.done[tid] = True
            self.main.release()

    def run(self):
        ths = [threading.Thread(target=self._run, args=(i,), daemon=True) for i in range(self.n)]
        for t in ths:
            t.start()
        cur = 0
        while True:
            enabled = [i for i in range(self.n) if not self.done[i]]
            if not enabled:
                break
            order = ([cur] if cur in enabled else []) + [i for i in enabled if i != cur]
            k = self.choices[self.step] if self.step < len(self.choices) else 0
            if k >= len(order):
                # let the threads finish so that no thread is left blocked, then fail loudly
                self.choices = self.choices[: self.step]
                self._drain(order)
                raise ReplayDivergence(f"step {self.step}: choice {k} but enabled {order}")
            chosen = order[k]
            self.trace.append((cur, tuple(order), k, self.where[chosen]))
            self.step += 1
            if self.step > self.max_steps:
                self._drain(order)
                raise RuntimeError("schedule horizon exceeded")
            cur = chosen
            self.sems[chosen].release()
            self.main.acquire()
        for t in ths:
            t.join()
        return self.results, self.errors, self.trace

    def _drain(self, order):
        # run everything to completion in the default order
        while True:
            enabled = [i for i in range(self.n) if not self.done[i]]
            if not enabled:
                return
            self.sems[enabled[0]].release()
            self.main.acquire()


def preemptions_before(trace):
    """pcs[i] = number of preemptions in trace[:i]"""
    pc = 0
    out = []
    for i, (cur, order, k, _) in enumerate(trace):
        out.append(pc)
        if i > 0 and k != 0 and order and order[0] == cur:
            pc += 1
    return out


def explore(make_bodies, prefix, bound, check, opcode_funcs=(), part=(0, 1), max_exec=None, slice_=(0, 1)):
    """iterative preemption bounding, DFS over schedule prefixes.
    part=(k, n): this worker only takes first-level deviations at points i with i % n == k (the default
    schedules are run by part 0).  Returns dict(executions, outcomes Counter, points, violations list)."""
    import collections

    nexec = 0
    outcomes = collections.Counter()
    viol = []
    points = 0
    k_part, n_part = part
    nthreads = len(make_bodies())
    # roots: "thread r runs first" for every r (the very first choice is free); every partition executes the roots,
    # only partition 0 counts them; first-level deviations of the roots are partitioned by point index
    stack = [([r] if r else [], True) for r in range(nthreads)]
    while stack:
        pre, is_root = stack.pop()
        s = Sched(make_bodies(), pre, prefix, opcode_funcs)
        res, errs, trace = s.run()
        choices = [t[2] for t in trace]
        if choices[: len(pre)] != list(pre):
            raise ReplayDivergence("executed choices differ from the requested prefix")
        points = max(points, len(trace))
        key = check(res, errs)
        if not is_root or k_part == 0:
            nexec += 1
            outcomes[key] += 1
            if not key.startswith("ok") and len(viol) < 5:
                viol.append((key, [c for c in choices], [t[3] for t in trace if t[2] != 0][:4]))
        pcs = preemptions_before(trace)
        for i in range(max(len(pre), 1), len(trace)):
            cur, order, k, _ = trace[i]
            if is_root and not (i % n_part == k_part):
                continue
            if is_root and slice_[1] > 1 and (i // n_part) % slice_[1] != slice_[0]:
                continue
            for alt in range(1, len(order)):
                # switching away from a thread that is still enabled is a preemption
                cost = pcs[i] + (1 if (order and order[0] == cur) else 0)
                if cost > bound:
                    continue
                stack.append((choices[:i] + [alt], False))
        if max_exec and nexec >= max_exec:
            break
    return dict(executions=nexec, outcomes=outcomes, points=points, violations=viol)


def replay(make_bodies, prefix, choices, opcode_funcs=()):
    s = Sched(make_bodies(), choices, prefix, opcode_funcs)
    return s.run()
