import argparse
import os
import sys


def main():
    ap = argparse.ArgumentParser()
    ap.add_argument("prop")
    ap.add_argument("--tier", default=os.environ.get("VERIF_TIER", "quick"), choices=["quick", "thorough"])
    ap.add_argument("--replay", default=None)
    ap.add_argument("--workers", type=int, default=int(os.environ.get("VERIF_WORKERS", "0")) or min(16, os.cpu_count() or 1))
    ap.add_argument("--seed", type=int, default=int(os.environ.get("VERIF_SEED", "0")))
    ap.add_argument("--arg", action="append", default=[], help="key=value passed to the check")
    a = ap.parse_args()
    prop = a.prop.upper()
    modname = f"mc.checks.{prop.lower()}"
    from . import runner

    args = dict(kv.split("=", 1) for kv in a.arg)
    if a.replay:
        sys.exit(runner.run_replay(modname, prop, a.replay))
    sys.exit(runner.run_check(modname, prop, a.tier, a.seed, a.workers, args))


if __name__ == "__main__":
    main()
