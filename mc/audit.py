"""R-audit: independent re-implementation of 'valid array' (DESIGN 4.3).
Shares nothing with the library's check(); group arithmetic from mc/groups.py."""

import numbers

import numpy as np

from . import groups as G


def audit_index(sym, ix, path, errs):
    cm = ix.chargemap
    keys = list(cm)
    try:
        if keys != sorted(keys):
            errs.append(("chargemap-unsorted", f"{path}: {keys}"))
    except TypeError:
        errs.append(("chargemap-unsortable", f"{path}: {keys}"))
    for c, d in cm.items():
        if not G.valid(sym, c):
            errs.append(("invalid-charge", f"{path}: {c!r} is not a {sym} charge"))
        if not (isinstance(d, (int, np.integer)) and not isinstance(d, bool) and d > 0):
            errs.append(("bad-size", f"{path}: size {d!r} for charge {c!r}"))
    if not isinstance(ix.dual, (bool, np.bool_)):
        errs.append(("bad-dual", f"{path}: {ix.dual!r}"))
    si = ix.subinfo
    if si is None:
        return
    ext = si.extents
    if set(ext) != set(cm):
        errs.append(("subinfo-keys", f"{path}: extents cover {sorted(ext, key=repr)} but the table has {sorted(cm, key=repr)}"))
    for c, e in ext.items():
        if c in cm and sum(e.values()) != cm[c]:
            errs.append(("subinfo-sum", f"{path}: extents of {c!r} sum to {sum(e.values())}, table says {cm[c]}"))
        for ss, d in e.items():
            if len(ss) != len(si.indices):
                errs.append(("subinfo-subsector-length", f"{path}: {ss}"))
                continue
            if any(sc not in sub.chargemap for sc, sub in zip(ss, si.indices)):
                errs.append(("subinfo-subcharge-missing", f"{path}: {ss}"))
                continue
            if d != int(np.prod([sub.chargemap[sc] for sc, sub in zip(ss, si.indices)], dtype=int)):
                errs.append(("subinfo-extent-size", f"{path}: {ss} -> {d}"))
            fc = G.combine(sym, *[G.signed(sym, sc, bool(sub.dual) != bool(ix.dual)) for sc, sub in zip(ss, si.indices)])
            if fc != c:
                errs.append(("subinfo-fused-charge", f"{path}: sub-sector {ss} under {c!r}, signed combination {fc!r}"))
    for k, sub in enumerate(si.indices):
        audit_index(sym, sub, f"{path}.{k}", errs)


def audit(x):
    """returns list of (kind, detail); empty = valid"""
    import symmray as sr

    errs = []
    if isinstance(x, sr.BlockVector):
        for k, v in x.blocks.items():
            if np.ndim(v) != 1:
                errs.append(("vector-block-ndim", f"{k!r}: ndim {np.ndim(v)}"))
        return errs
    if not isinstance(x, sr.AbelianArray):
        return errs
    sym = type(x.symmetry).__name__
    if sym not in G.SYMS:
        return [("unknown-symmetry", sym)]
    if not G.valid(sym, x.charge):
        errs.append(("invalid-total-charge", f"{x.charge!r}"))
    for k, ix in enumerate(x.indices):
        audit_index(sym, ix, f"index{k}", errs)
    duals = [bool(ix.dual) for ix in x.indices]
    n = len(x.indices)

    def conserving(sec):
        try:
            return len(sec) == n and G.sector_charge(sym, sec, duals) == x.charge
        except Exception:
            return False

    dtypes = set()
    for sec, blk in x.blocks.items():
        if not isinstance(sec, tuple) or len(sec) != n:
            errs.append(("sector-length", f"{sec!r}"))
            continue
        if any(c not in ix.chargemap for c, ix in zip(sec, x.indices)):
            errs.append(("sector-charge-not-in-index", f"{sec!r}"))
            continue
        if not conserving(sec):
            errs.append(("sector-not-conserving", f"{sec!r} with duals {duals} does not combine to {x.charge!r}"))
        want = tuple(ix.chargemap[c] for c, ix in zip(sec, x.indices))
        if tuple(np.shape(blk)) != want:
            errs.append(("block-shape", f"{sec!r}: {np.shape(blk)} expected {want}"))
        dtypes.add(str(getattr(blk, "dtype", type(blk))))
    if x.fermionic:
        for sec, p in x.phases.items():
            if p not in (1, -1):
                errs.append(("phase-value", f"{sec!r}: {p!r}"))
            if not conserving(sec):
                errs.append(("phase-sector-not-conserving", f"{sec!r}"))
        try:
            par = G.parity(sym, x.charge)
            if len(x.oddpos) % 2 != par:
                errs.append(("oddpos-parity", f"{len(x.oddpos)} labels {x.oddpos!r} but charge {x.charge!r} has parity {par}"))
        except Exception as e:  # invalid charge already reported
            pass
        for o in x.oddpos:
            if not isinstance(o, sr.FermionicOperator):
                errs.append(("oddpos-type", f"{o!r}"))
    return errs


def audit_result(r):
    """audit everything returned by an operation: arrays, vectors, tuples of them; scalars must be numbers"""
    import symmray as sr

    errs = []
    items = r if isinstance(r, (tuple, list)) else (r,)
    for k, o in enumerate(items):
        if isinstance(o, (sr.AbelianArray, sr.BlockVector)):
            errs += [(kind, f"result[{k}]: {det}") for kind, det in audit(o)]
        elif o is None or isinstance(o, (dict, np.ndarray, numbers.Number, np.generic, bool)):
            pass
        else:
            errs.append(("result-type", f"result[{k}] has type {type(o).__name__}"))
    return errs


def result_objects(r):
    import symmray as sr

    items = r if isinstance(r, (tuple, list)) else (r,)
    return [o for o in items if isinstance(o, (sr.AbelianArray, sr.BlockVector))]
