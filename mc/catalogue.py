"""The operation catalogue (alphabet) shared by the explicit-state checks.

``ops_for(x)`` returns the applicable public operations for the object ``x``
(AbelianArray / FermionicArray / BlockVector) as Op records.  Every operation
is a function of ``x`` alone: partners of binary operations are derived from x
(conjugate, adjoint, vectors built from its index tables), so that the same
operation can be applied to a twin of x with identical arguments and replayed
by name."""

import itertools

import numpy as np

from . import groups as G
from .arrays import index_plain_key, sym_name


class Op:
    __slots__ = ("name", "fn", "inplace", "mutator", "tags")

    def __init__(self, name, fn, inplace=None, mutator=False, tags=()):
        self.name = name
        self.fn = fn
        self.inplace = inplace
        self.mutator = mutator
        self.tags = frozenset(tags)


def perm_menu(n):
    perms = list(itertools.permutations(range(n)))
    if n <= 3:
        return perms
    ident = tuple(range(n))
    return [ident[::-1], ident[1:] + ident[:1], (1, 0) + ident[2:]]


def fuse_menu(n):
    out = []
    if n >= 2:
        out += [((0, 1),), ((1, 0),), ((n - 1,), (0,))]
    if n >= 3:
        out += [((0, 2), (1,)), ((2, 1, 0),), ((1, 2),)]
    if n >= 4:
        out += [((0, 1), (2, 3)), ((3, 0), (2, 1))]
    if n >= 1:
        out += [((0,),)]
    return out


def vector_for(x, axis, missing_first=False, dtype=None):
    import symmray as sr

    ix = x.indices[axis]
    dt = dtype or (np.asarray(next(iter(x.blocks.values()))).dtype if x.blocks else np.float64)
    blocks = {}
    for k, (c, d) in enumerate(ix.chargemap.items()):
        if missing_first and k == 0 and len(ix.chargemap) > 1:
            continue
        blocks[c] = (np.arange(d) + 2 + k).astype(dt)
    return sr.BlockVector(blocks)


def matching_pairs(x):
    keys = [index_plain_key(ix) for ix in x.indices]
    out = []
    for i in range(x.ndim):
        for j in range(i + 1, x.ndim):
            ci, cj = x.indices[i], x.indices[j]
            if keys[i][0] == keys[j][0] and keys[i][1] != keys[j][1] and (ci.subinfo is None) == (cj.subinfo is None):
                out.append((i, j))
    return out


def ops_for(x, level="full"):
    """level: 'full' | 'core' (smaller menus for deeper searches)"""
    import autoray as ar
    import symmray as sr

    ops = []
    add = ops.append
    if isinstance(x, sr.BlockVector):
        return vector_ops(x)
    if not isinstance(x, sr.AbelianArray):
        return ops
    n = x.ndim
    sym = sym_name(x)
    ferm = bool(x.fermionic)
    e = G.identity(sym)
    core = level == "core"

    add(Op("copy", lambda x: x.copy()))
    # ---- structure
    for perm in perm_menu(n) if not core else perm_menu(n)[:3]:
        if n >= 2:
            add(Op(f"transpose{perm}", lambda x, p=perm: x.transpose(p), inplace=lambda y, p=perm: y.transpose(p, inplace=True)))
    add(Op("transpose()", lambda x: x.transpose(), inplace=lambda y: y.transpose(inplace=True)))
    add(Op("T", lambda x: x.T))
    add(Op("conj", lambda x: x.conj(), inplace=lambda y: y.conj(inplace=True)))
    add(Op("dagger", lambda x: x.dagger(), inplace=lambda y: y.dagger(inplace=True)))
    add(Op("H", lambda x: x.H))
    add(Op("sr.conj", lambda x: sr.conj(x)))
    if ferm:
        add(Op("conj(phase_dual=True)", lambda x: x.conj(phase_dual=True), inplace=lambda y: y.conj(phase_dual=True, inplace=True)))
        add(Op("conj(phase_permutation=False)", lambda x: x.conj(phase_permutation=False), inplace=lambda y: y.conj(phase_permutation=False, inplace=True)))
        add(Op("dagger(phase_dual=True)", lambda x: x.dagger(phase_dual=True), inplace=lambda y: y.dagger(phase_dual=True, inplace=True)))
    for grp in fuse_menu(n) if not core else fuse_menu(n)[:3]:
        if ferm:
            add(Op(f"fuse{grp}", lambda x, g=grp: x.fuse(*g), inplace=lambda y, g=grp: y.fuse(*g, inplace=True), tags=("fuse",)))
        else:
            for mode in ("insert", "concat") if not core else ("insert",):
                add(Op(f"fuse{grp}[{mode}]", lambda x, g=grp, m=mode: x.fuse(*g, mode=m), inplace=lambda y, g=grp, m=mode: y.fuse(*g, mode=m, inplace=True), tags=("fuse",)))
    if n >= 2:
        add(Op("sr.fuse((0,1))", lambda x: sr.fuse(x, (0, 1)), tags=("fuse",)))
        # empty groups: expanded to singlet axes (also in place)
        add(Op("fuse((0,1),())", lambda x: x.fuse((0, 1), ()), inplace=lambda y: y.fuse((0, 1), (), inplace=True), tags=("fuse",)))
        add(Op("fuse((),(1,0))", lambda x: x.fuse((), (1, 0)), inplace=lambda y: y.fuse((), (1, 0), inplace=True), tags=("fuse",)))
        # history inside one step: fuse x (its index objects get hashed), then fuse a conjugate / adjoint copy the same way
        add(Op("fuse((0,1));conj.fuse((0,1))", lambda x: (x.fuse((0, 1)), x.conj().fuse((0, 1)))[1], tags=("fuse",)))
        add(Op("fuse((1,0),(2..));dagger.dagger.fuse", lambda x: (x.fuse((1, 0)), x.dagger().dagger().fuse((1, 0)))[1], tags=("fuse",)))
    if n >= 2 and any(ix.subinfo is not None for ix in x.indices[:2]):
        # a second fuse that nests the already fused axis, then a conjugate: nested sub-index info must be conjugated at every level
        add(Op("fuse((0,1)).conj", lambda x: x.fuse((0, 1)).conj(), tags=("fuse",)))
        add(Op("fuse((0,1)).conj.unfuse(0).unfuse(0)", lambda x: x.fuse((0, 1)).conj().unfuse(0).unfuse(0), tags=("fuse", "unfuse")))
        add(Op("fuse((1,0)).dagger.unfuse_all", lambda x: x.fuse((1, 0)).dagger().unfuse_all(), tags=("fuse", "unfuse")))
    for ax in range(n):
        if x.indices[ax].subinfo is not None:
            add(Op(f"unfuse({ax})", lambda x, a=ax: x.unfuse(a), inplace=lambda y, a=ax: y.unfuse(a, inplace=True), tags=("unfuse",)))
    if any(ix.subinfo is not None for ix in x.indices):
        add(Op("unfuse_all", lambda x: x.unfuse_all(), inplace=lambda y: y.unfuse_all(inplace=True), tags=("unfuse",)))
    shape = tuple(x.shape)
    if n >= 2:
        tgt = (shape[0] * shape[1],) + shape[2:]
        add(Op(f"reshape{tgt}", lambda x, t=tgt: x.reshape(t), inplace=lambda y, t=tgt: y.reshape(t, inplace=True), tags=("reshape",)))
        flat = (int(np.prod(shape, dtype=int)),)
        if flat != tgt:
            add(Op(f"reshape{flat}", lambda x, t=flat: x.reshape(t), tags=("reshape",)))
        add(Op("autoray.reshape(-1)", lambda x: ar.do("reshape", x, (-1,)), tags=("reshape",)))
    for ax in range(n):
        si = x.indices[ax].subinfo
        if si is not None:
            sub = tuple(s.size_total for s in si.indices)
            tgt = shape[:ax] + sub + shape[ax + 1 :]
            add(Op(f"reshape{tgt}", lambda x, t=tgt: x.reshape(t), tags=("reshape",)))
            break
    add(Op("squeeze()", lambda x: x.squeeze(), inplace=lambda y: y.squeeze(inplace=True)))
    for ax in range(n):
        if shape[ax] == 1:
            add(Op(f"squeeze({ax})", lambda x, a=ax: x.squeeze(a)))
            break
    if n <= 4:
        for pos in sorted({0, n}):
            add(Op(f"expand_dims({pos})", lambda x, p=pos: x.expand_dims(p), inplace=lambda y, p=pos: y.expand_dims(p, inplace=True)))
        nz = [c for c in G.ALPHABET[sym] if c != e]
        even_nz = [c for c in nz if G.parity(sym, c) == 0]
        odd_c = [c for c in nz if G.parity(sym, c) == 1][0]
        add(Op("expand_dims(0,c=odd,dual=True)", lambda x, c=odd_c: x.expand_dims(0, c=c, dual=True), tags=("expand-odd",)))
        if even_nz:
            add(Op("expand_dims(-1,c=even)", lambda x, c=even_nz[0]: x.expand_dims(-1, c=c)))
    add(Op("sync_charges", lambda x: x.sync_charges(), inplace=lambda y: y.sync_charges(inplace=True)))
    # ---- contraction with derived partners
    modes = ("fused", "blockwise") if not core else ("fused",)
    if n >= 1:
        for mode in modes:
            add(Op(f"tensordot(x,x.conj(),{n})[{mode}]", lambda x, m=mode: sr.tensordot(x, x.conj(), x.ndim, mode=m, preserve_array=True), tags=("contract",)))
            add(Op(f"tensordot(x.conj(),x,((0,),(0,)))[{mode}]", lambda x, m=mode: sr.tensordot(x.conj(), x, ((0,), (0,)), mode=m), tags=("contract",)))
            if n >= 2:
                add(Op(f"tensordot(x,x.dagger(),((-1,),(0,)))[{mode}]", lambda x, m=mode: sr.tensordot(x, x.dagger(), ((-1,), (0,)), mode=m), tags=("contract",)))
                add(Op(f"tensordot(x,x.conj(),((0,1),(0,1)))[{mode}]", lambda x, m=mode: sr.tensordot(x, x.conj(), ((0, 1), (0, 1)), mode=m, preserve_array=True), tags=("contract",)))
                add(Op(f"tensordot(x,x.conj(),((1,0),(1,0)))[{mode}]", lambda x, m=mode: sr.tensordot(x, x.conj(), ((1, 0), (1, 0)), mode=m, preserve_array=True), tags=("contract",)))
        add(Op("tensordot(x,x.conj(),scalar)", lambda x: sr.tensordot(x, x.conj(), x.ndim), tags=("contract", "scalar")))
        add(Op("autoray.tensordot(x,x.conj(),1)", lambda x: ar.do("tensordot", x, x.dagger(), 1), tags=("contract",)))
        if n <= 2:
            add(Op("outer(x,x.conj())", lambda x: sr.tensordot(x, x.conj(), 0), tags=("contract",)))
            add(Op("x@x.dagger()", lambda x: x @ x.dagger(), tags=("contract",)))
    if n >= 1 and len(x.blocks) >= 2:
        # partners that store fewer sectors than x: alignment drops blocks and charges (also from fused indices)
        for mode in modes:
            add(Op(f"tensordot(x,sparse(x.conj()),((0,),(0,)))[{mode}]", lambda x, m=mode: sr.tensordot(x, _sparse(x.conj()), ((0,), (0,)), mode=m), tags=("contract",)))
        add(Op(f"tensordot(sparse(x.dagger()),x,{n})", lambda x: sr.tensordot(_sparse(x.dagger()), x, (tuple(range(x.ndim)), tuple(range(x.ndim - 1, -1, -1))), preserve_array=True), tags=("contract",)))
        add(Op("align_axes(x,sparse(x.conj()),((0,),(0,)))", lambda x: sr.align_axes(x, _sparse(x.conj()), ((0,), (0,)))))
        add(Op("align_axes(sparse(x),x.conj(),((-1,),(-1,)))", lambda x: sr.align_axes(_sparse(x.copy(), 1), x.conj(), ((x.ndim - 1,), (x.ndim - 1,)))))
        add(Op("sparse(x).sync_charges", lambda x: _sparse(x.copy()).sync_charges()))
        add(Op("multiply_diagonal(v-missing,0);sync_charges", lambda x: x.multiply_diagonal(vector_for(x, 0, True), 0).sync_charges()))
    pairs = matching_pairs(x)
    letters = "abcdefgh"
    if n >= 2:
        rot = tuple(range(1, n)) + (0,)
        eq = letters[:n] + "->" + "".join(letters[p] for p in rot)
        add(Op(f"einsum({eq})", lambda x, q=eq: x.einsum(q), tags=("einsum",)))
    for (i, j) in pairs[:2]:
        lhs = list(letters[:n])
        lhs[j] = lhs[i]
        rhs = "".join(c for k, c in enumerate(lhs) if k not in (i, j))
        eq = "".join(lhs) + "->" + rhs
        add(Op(f"einsum({eq})", lambda x, q=eq: x.einsum(q, preserve_array=True), tags=("einsum",)))
        add(Op(f"sr.einsum({eq})", lambda x, q=eq: sr.einsum(q, x), tags=("einsum",)))
    if n == 2 and (0, 1) in pairs:
        add(Op("trace", lambda x: x.trace(), tags=("scalar",)))
    for ax in sorted({0, n - 1}) if n else ():
        add(Op(f"multiply_diagonal(v,{ax})", lambda x, a=ax: x.multiply_diagonal(vector_for(x, a), a), inplace=lambda y, a=ax: y.multiply_diagonal(vector_for(y, a), a, inplace=True)))
        add(Op(f"multiply_diagonal(v-missing,{ax})", lambda x, a=ax: x.multiply_diagonal(vector_for(x, a, True), a)))
    if n >= 1 and x.blocks and np.asarray(next(iter(x.blocks.values()))).dtype.kind == "f":
        # a complex diagonal on real data: the product must become complex (type promotion, nothing discarded)
        add(Op("multiply_diagonal(complex-v,0)", lambda x: x.multiply_diagonal(_complex_vector(x, 0), 0), tags=("promote",)))
        add(Op("sr.multiply_diagonal(complex-v,-1)", lambda x: sr.multiply_diagonal(x, _complex_vector(x, x.ndim - 1), x.ndim - 1), tags=("promote",)))
    if n >= 1:
        add(Op("align_axes(x,x.conj(),((0,),(0,)))", lambda x: sr.align_axes(x, x.conj(), ((0,), (0,)))))
        add(Op("align_axes(x,x.dagger().sync,((-1,),(0,)))", lambda x: x.align_axes(x.dagger().sync_charges(), ((n - 1,), (0,)))))
    # ---- arithmetic
    add(Op("x+x", lambda x: x + x, tags=("arith",)))
    add(Op("x-x", lambda x: x - x, tags=("arith",)))
    add(Op("x*x", lambda x: x * x, tags=("arith",)))
    add(Op("x*2", lambda x: x * 2, tags=("arith",)))
    add(Op("0.5*x", lambda x: 0.5 * x, tags=("arith",)))
    add(Op("x/2", lambda x: x / 2, tags=("arith",)))
    add(Op("-x", lambda x: -x, tags=("arith",)))
    add(Op("x+x.copy()*3", lambda x: x + x.copy() * 3, tags=("arith",)))
    # augmented assignment as operations with an in-place form: x += w must leave in x what x + w returns (w: an independent
    # array of the same structure, value 3x, stored without pending signs so that the two operands differ in sign bookkeeping)
    add(Op("x+=3x", lambda x: x + _partner3(x), inplace=lambda y: y.__iadd__(_partner3(y)), tags=("arith",)))
    add(Op("x-=3x", lambda x: x - _partner3(x), inplace=lambda y: y.__isub__(_partner3(y)), tags=("arith",)))
    add(Op("x*=2", lambda x: x * 2, inplace=lambda y: y.__imul__(2), tags=("arith",)))
    add(Op("x/=2", lambda x: x / 2, inplace=lambda y: y.__itruediv__(2), tags=("arith",)))
    add(Op("iadd", lambda x: x.copy().__iadd__(x), tags=("arith",)))
    add(Op("imul2", lambda x: x.copy().__imul__(2), tags=("arith",)))
    if x.blocks:
        for nm in ("sum", "max", "min", "norm", "all", "any"):
            add(Op(nm, lambda x, nm=nm: getattr(x, nm)(), tags=("scalar", "reduction")))
        add(Op("sr.sum", lambda x: sr.sum(x), tags=("scalar", "reduction")))
        add(Op("linalg.norm", lambda x: sr.linalg.norm(x), tags=("scalar", "reduction")))
        for nm in ("abs", "sqrt", "isfinite"):
            add(Op(nm, lambda x, nm=nm: getattr(x, nm)(), tags=("elementwise",)))
        add(Op("sr.abs", lambda x: sr.abs(x), tags=("elementwise",)))
        add(Op("clip(-5,40)", lambda x: x.clip(-5, 40), tags=("elementwise",)))
        add(Op("to_dense", lambda x: x.to_dense(), tags=("dense",)))
    add(Op("allclose(x)", lambda x: x.allclose(x.copy()), tags=("scalar",)))
    add(Op("get_params", lambda x: x.get_params(), tags=("params",)))
    if n == 0 and len(x.blocks) == 1:
        add(Op("item", lambda x: x.item(), tags=("scalar",)))
    # documented mutators, applied to a library copy
    add(Op("copy;fill_missing_blocks", lambda x: _mut(x.copy(), lambda y: y.fill_missing_blocks()), mutator=True))
    add(Op("copy;drop_missing_blocks", lambda x: _mut(x.copy(), lambda y: y.drop_missing_blocks()), mutator=True))
    add(Op("copy;apply_to_arrays(2x)", lambda x: _mut(x.copy(), lambda y: y.apply_to_arrays(lambda b: b * 2)), mutator=True))
    add(Op("copy;set_params(get_params)", lambda x: _mut(x.copy(), lambda y: y.set_params(x.get_params())), mutator=True))
    # ---- fermionic sign bookkeeping
    if ferm:
        if n:
            add(Op("phase_flip(0)", lambda x: x.phase_flip(0), inplace=lambda y: y.phase_flip(0, inplace=True), tags=("phase",)))
            add(Op("phase_flip(all)", lambda x: x.phase_flip(*range(x.ndim)), tags=("phase",)))
            add(Op("phase_flip()", lambda x: x.phase_flip(), tags=("phase",)))
        add(Op("phase_transpose()", lambda x: x.phase_transpose(), inplace=lambda y: y.phase_transpose(inplace=True), tags=("phase",)))
        if n >= 2:
            add(Op("phase_transpose(rot)", lambda x: x.phase_transpose(tuple(range(1, x.ndim)) + (0,)), tags=("phase",)))
        if x.blocks:
            sec = sorted(x.blocks)[0]
            add(Op(f"phase_sector({sec})", lambda x, s=sec: x.phase_sector(s), inplace=lambda y, s=sec: y.phase_sector(s, inplace=True), tags=("phase",)))
        add(Op("phase_global", lambda x: x.phase_global(), inplace=lambda y: y.phase_global(inplace=True), tags=("phase",)))
        add(Op("phase_sync", lambda x: x.phase_sync(), inplace=lambda y: y.phase_sync(inplace=True), tags=("phase",)))
        if n >= 2:
            add(Op("transpose(rev,phase=False)", lambda x: x.transpose(tuple(range(x.ndim - 1, -1, -1)), phase=False), tags=("phase",)))
    # ---- linear algebra on matrices
    if n == 2:
        add(Op("qr", lambda x: sr.linalg.qr(x), tags=("linalg",)))
        add(Op("qr_stabilized", lambda x: tuple(o for o in sr.linalg.qr_stabilized(x) if o is not None), tags=("linalg",)))
        add(Op("autoray.qr", lambda x: ar.do("linalg.qr", x), tags=("linalg",)))
        add(Op("svd", lambda x: sr.linalg.svd(x), tags=("linalg",)))
        add(Op("autoray.svd", lambda x: ar.do("linalg.svd", x), tags=("linalg",)))
        add(Op("svd_truncated(max_bond=1,absorb=None)", lambda x: sr.linalg.svd_truncated(x, max_bond=1, cutoff=0.0, absorb=None), tags=("linalg",)))
        add(Op("svd_truncated(max_bond=2)", lambda x: tuple(o for o in sr.linalg.svd_truncated(x, max_bond=2, cutoff=0.0) if o is not None), tags=("linalg",)))
        add(Op("svd_truncated(cutoff=1e-3,mode=2,absorb=-1)", lambda x: tuple(o for o in sr.linalg.svd_truncated(x, cutoff=1e-3, cutoff_mode=2, absorb=-1) if o is not None), tags=("linalg",)))
        add(Op("svd_truncated(cutoff=1e9,mode=1,absorb=None)", lambda x: sr.linalg.svd_truncated(x, cutoff=1e9, cutoff_mode=1, absorb=None), tags=("linalg",)))
        add(Op("autoray.svd_truncated", lambda x: tuple(o for o in ar.do("svd_truncated", x, max_bond=3, cutoff=1e-12, absorb=1) if o is not None), tags=("linalg",)))
        if x.charge == e and (0, 1) in pairs:
            # eigh called directly on the state (it only reads one triangle of each block)
            add(Op("eigh(x)", lambda x: sr.linalg.eigh(x), tags=("linalg", "eigh", "raw-eigh")))
        if x.charge == e and (0, 1) in pairs and x.indices[0].subinfo is None:
            add(Op("eigh(x+x.H)", lambda x: sr.linalg.eigh(_herm(x)), tags=("linalg", "eigh")))
            add(Op("autoray.eigh(x+x.H)", lambda x: ar.do("linalg.eigh", _herm(x)), tags=("linalg", "eigh")))
            add(Op("solve(x+6,b)", lambda x: sr.linalg.solve(_dominant(x), _rhs(x)), tags=("linalg", "solve")))
        elif n == 2 and x.blocks and all(np.asarray(b).shape[0] == np.asarray(b).shape[1] for b in x.blocks.values()):
            # any matrix with square stored blocks is a solvable system, whatever its total charge and directions
            odd_a = bool(x.fermionic) and G.parity(sym_name(x), x.charge) == 1
            add(Op("solve(x+6,b)[general]", lambda x: sr.linalg.solve(_dominant(x, True), _rhs(x, True)), tags=("linalg", "solve") + (("solve-odd-a",) if odd_a else ())))
    return ops


def _complex_vector(x, axis):
    import symmray as sr

    dt = np.asarray(next(iter(x.blocks.values()))).dtype
    cdt = np.complex64 if dt == np.float32 else np.complex128
    return sr.BlockVector({c: ((np.arange(d) + 1) * (1 + 2j)).astype(cdt) for c, d in x.indices[axis].chargemap.items()})


def _sparse(y, offset=0):
    """y (a fresh array made by the caller) with every other stored sector removed"""
    for k, sec in enumerate(sorted(y.blocks)):
        if (k + offset) % 2 == 0:
            del y.blocks[sec]
            if getattr(y, "fermionic", False):
                y.phases.pop(sec, None)
    return y


def _mut(y, f):
    f(y)
    return y


def _herm(x):
    """x + x.H blockwise (harness side, x is charge zero with conjugate index pair)"""
    h = x.copy()
    if x.fermionic:
        h = h.phase_sync()
    new = {}
    for s, b in h.blocks.items():
        b = np.asarray(b)
        if s[0] == s[1]:
            new[s] = b + b.conj().T
    return h.copy_with(blocks=new)


def _partner3(x):
    return (x.phase_sync() if x.fermionic else x.copy()) * 3


def _dominant(x, general=False):
    a = x.copy()
    if x.fermionic:
        a = a.phase_sync()
    new = {}
    for s, b in a.blocks.items():
        b = np.asarray(b)
        if s[0] == s[1] or general:
            new[s] = b + (np.abs(b).sum() + 1) * np.eye(b.shape[0], dtype=b.dtype)
    return a.copy_with(blocks=new)


def _rhs(x, general=False):
    """a valid right-hand side for solve(a, b): a 1-d array on a's row index holding the single sector of its first charge
    (general: of the row charge of a's first stored block)"""
    ix = x.indices[0]
    c, d = next(iter(ix.chargemap.items()))
    if general:
        c = next(iter(x.blocks))[0]
        d = ix.chargemap[c]
    dt = np.asarray(next(iter(x.blocks.values()))).dtype if x.blocks else float
    sym = sym_name(x)
    charge = G.signed(sym, c, bool(ix.dual))
    blocks = {(c,): (np.arange(d) + 1.0).astype(dt)}
    kw = {}
    if x.fermionic:
        kw = dict(oddpos=(11 if G.parity(sym, charge) else None))
    klass = type(x)
    if klass.static_symmetry:
        return klass(indices=(ix,), charge=charge, blocks=blocks, **kw)
    return klass(indices=(ix,), charge=charge, blocks=blocks, symmetry=x.symmetry, **kw)


def vector_ops(v):
    import autoray as ar
    import symmray as sr

    ops = []
    add = ops.append
    add(Op("bv.copy", lambda v: v.copy()))
    for nm, f in (
        ("bv+bv", lambda v: v + v), ("bv-bv", lambda v: v - v), ("bv*bv", lambda v: v * v), ("bv/bv", lambda v: v / v), ("bv**bv", lambda v: v ** v),
        ("bv+2", lambda v: v + 2), ("2+bv", lambda v: 2 + v), ("bv-2", lambda v: v - 2), ("2-bv", lambda v: 2 - v), ("bv*2", lambda v: v * 2), ("2*bv", lambda v: 2 * v),
        ("bv/2", lambda v: v / 2), ("2/bv", lambda v: 2 / v), ("bv**2", lambda v: v ** 2), ("2**bv", lambda v: 2 ** v), ("-bv", lambda v: -v),
        ("bv.iadd", lambda v: v.copy().__iadd__(v)), ("bv.isub", lambda v: v.copy().__isub__(v)), ("bv.imul", lambda v: v.copy().__imul__(v)),
        ("bv.itruediv", lambda v: v.copy().__itruediv__(v)), ("bv.ipow", lambda v: v.copy().__ipow__(v)), ("bv.iadd2", lambda v: v.copy().__iadd__(2)),
    ):
        add(Op(nm, f, tags=("arith",)))
    for nm in ("abs", "sqrt", "isfinite"):
        add(Op("bv." + nm, lambda v, nm=nm: getattr(v, nm)(), tags=("elementwise",)))
        add(Op("sr." + nm + "(bv)", lambda v, nm=nm: getattr(sr, nm)(v), tags=("elementwise",)))
    add(Op("bv.clip", lambda v: v.clip(0.5, 3), tags=("elementwise",)))
    if v.blocks:
        for nm in ("sum", "max", "min", "norm", "all", "any"):
            add(Op("bv." + nm, lambda v, nm=nm: getattr(v, nm)(), tags=("scalar", "reduction")))
        add(Op("bv.to_dense", lambda v: v.to_dense(), tags=("dense",)))
    add(Op("bv.get_params", lambda v: v.get_params(), tags=("params",)))
    return ops


def find_op(x, name, level="full"):
    for op in ops_for(x, level):
        if op.name == name:
            return op
    raise KeyError(name)


def public_surface():
    """cross-check of the catalogue against the public classes: names of public callables"""
    import symmray as sr

    names = set()
    for klass in (sr.AbelianArray, sr.FermionicArray, sr.BlockVector):
        for nm in dir(klass):
            if not nm.startswith("_") and callable(getattr(klass, nm, None)):
                names.add(f"{klass.__name__}.{nm}")
    return sorted(names)
