"""Array descriptors <-> real symmray arrays, canonical keys, snapshots, the
harness's own dense embedding (R-dense) and tag fills.

A *descriptor* is plain python data (dict / tuple / int / str / bool / None) so
that any explored case can be written to a replay file and rebuilt.
"""

import itertools
import random

import numpy as np

from . import groups as G

# --------------------------------------------------------------------------- #
# json-able encoding of python data with tuples / non-str dict keys


def enc(o):
    if isinstance(o, tuple):
        return {"t": [enc(x) for x in o]}
    if isinstance(o, list):
        return [enc(x) for x in o]
    if isinstance(o, dict):
        return {"d": [[enc(k), enc(v)] for k, v in o.items()]}
    if isinstance(o, (np.integer,)):
        return int(o)
    if isinstance(o, (np.floating,)):
        return float(o)
    if isinstance(o, (np.bool_,)):
        return bool(o)
    if isinstance(o, complex):
        return {"c": [o.real, o.imag]}
    if isinstance(o, np.ndarray):
        return {"a": enc(o.tolist()), "dtype": str(o.dtype)}
    if isinstance(o, (set, frozenset)):
        return {"s": [enc(x) for x in sorted(o, key=repr)]}
    if o is None or isinstance(o, (int, float, str, bool)):
        return o
    return {"r": repr(o)}


def dec(o):
    if isinstance(o, list):
        return [dec(x) for x in o]
    if isinstance(o, dict):
        if "t" in o:
            return tuple(dec(x) for x in o["t"])
        if "d" in o:
            return {dec(k): dec(v) for k, v in o["d"]}
        if "c" in o:
            return complex(*o["c"])
        if "a" in o:
            return np.array(dec(o["a"]), dtype=o["dtype"])
        if "s" in o:
            return frozenset(dec(x) for x in o["s"])
        if "r" in o:
            return o["r"]
    return o


# --------------------------------------------------------------------------- #
# index descriptors:  (cm_items, dual, sub)    sub = None | (sub_index_descs, extents_items)


def ixd(cm, dual=False, sub=None):
    if isinstance(cm, dict):
        cm = tuple(sorted(cm.items()))
    return (tuple(cm), bool(dual), sub)


def make_index(d):
    import symmray as sr
    from symmray.abelian_core import SubIndexInfo

    cm, dual, sub = d
    subinfo = None
    if sub is not None:
        subix, extents = sub
        subinfo = SubIndexInfo(
            indices=tuple(make_index(s) for s in subix),
            extents={c: dict(e) for c, e in extents},
        )
    return sr.BlockIndex(dict(cm), dual=dual, subinfo=subinfo)


def index_key(ix):
    si = ix.subinfo
    return (
        tuple(ix.chargemap.items()),
        bool(ix.dual),
        None
        if si is None
        else (
            tuple(index_key(s) for s in si.indices),
            tuple((c, tuple(e.items())) for c, e in si.extents.items()),
        ),
    )


def index_plain_key(ix):
    """charge table + direction only"""
    return (tuple(ix.chargemap.items()), bool(ix.dual))


# --------------------------------------------------------------------------- #
# fills


def tag_values(n, fill):
    """n distinct positive integers according to fill spec."""
    kind = fill[0]
    if kind == "seq":
        start = fill[1]
        return list(range(start, start + n))
    if kind == "perm":
        start, seed = fill[1], fill[2]
        rng = random.Random(seed * 7919 + start)
        return rng.sample(range(start, start + 3 * n + 3), n)
    if kind == "pos":
        # positional encoding: base ** (offset + stride * k)
        base, offset, stride = fill[1], fill[2], fill[3]
        return [base ** (offset + stride * k) for k in range(n)]
    raise ValueError(fill)


def to_value(t, dtype):
    if dtype == "object":
        return int(t)
    if dtype.startswith("complex"):
        return complex(t, (t * 3 + 1) % 11 + 1)
    return float(t)


def block_shapes(indices, sectors):
    out = {}
    for s in sectors:
        out[s] = tuple(dict(ix[0])[c] for ix, c in zip(indices, s))
    return out


def make_blocks(indices, sectors, fill=("seq", 1), dtype="float64"):
    """blocks dict in the given sector order; tags assigned in *sorted* sector
    order so that values do not depend on the insertion order."""
    shapes = block_shapes(indices, sectors)
    sizes = {s: int(np.prod(shapes[s], dtype=int)) for s in sectors}
    total = sum(sizes.values())
    if fill[0] == "ones":
        return {s: np.ones(shapes[s], dtype=dtype) for s in sectors}
    if fill[0] == "spectra":
        # designed singular values: block (c0, c1) = U[:, :r] diag(s) V[:, :r]^H, s = spectra[c1]
        rng = np.random.default_rng([int(fill[1]), 777])
        spectra = dict(fill[2])
        cplx = str(dtype).startswith("complex")
        store = {}
        for s in sorted(sectors):
            m, n = shapes[s]
            sv = np.array(spectra[s[1]], dtype=float)

            def orth(k):
                a = rng.normal(size=(k, k)) + (1j * rng.normal(size=(k, k)) if cplx else 0)
                return np.linalg.qr(a)[0]

            Uo, Vo = orth(m), orth(n)
            r = len(sv)
            store[s] = np.asarray((Uo[:, :r] * sv) @ Vo[:, :r].conj().T, dtype=dtype)
        return {s: store[s] for s in sectors}
    if fill[0] in ("zerocol", "zeroblock"):
        # designed degenerate data: an exactly zero leading column in every block / one exactly zero block
        rng = np.random.default_rng([int(fill[1]), 4242])
        cplx = str(dtype).startswith("complex")
        store = {}
        for k, s in enumerate(sorted(sectors)):
            a = rng.normal(size=shapes[s]) + (1j * rng.normal(size=shapes[s]) if cplx else 0)
            if fill[0] == "zerocol" and len(shapes[s]) == 2:
                a[:, 0] = 0
            if fill[0] == "zeroblock" and k % 2 == 0:
                a = a * 0
            store[s] = np.asarray(a, dtype=dtype)
        return {s: store[s] for s in sectors}
    if fill[0] in ("rand", "rank1", "herm", "herm-anti", "herm-diag", "csym", "cdiag", "dominant", "posdef"):
        # designed float data for the linear-algebra checks (values are not an enumerated dimension)
        rng = np.random.default_rng([int(fill[1]), 12345])
        store = {}
        cplx = str(dtype).startswith("complex")

        def g(shape):
            a = rng.normal(size=shape)
            if cplx:
                a = a + 1j * rng.normal(size=shape)
            return a

        for s in sorted(sectors):
            shp = shapes[s]
            if fill[0] == "rank1" and len(shp) == 2:
                a = np.outer(g((shp[0],)), g((shp[1],)))
            else:
                a = g(shp)
            if fill[0] in ("herm-anti", "herm-diag") and len(shp) == 2 and shp[0] == shp[1]:
                # structured Hermitian blocks with exact zeros: support on the antidiagonal only (a hopping-like block,
                # as many non-zeros as a diagonal matrix has) / on the diagonal only
                v = g((shp[0],))
                b = np.zeros(shp, dtype=a.dtype)
                for i in range(shp[0]):
                    b[i, (shp[0] - 1 - i) if fill[0] == "herm-anti" else i] = v[i]
                a = b + b.conj().T
            if fill[0] in ("csym", "cdiag") and len(shp) == 2 and shp[0] == shp[1]:
                # square blocks equal to their own transpose without being Hermitian (complex data): symmetric / diagonal
                a = (a + a.T) if fill[0] == "csym" else np.diag(np.diag(a))
            if fill[0] in ("herm", "dominant", "posdef") and len(shp) == 2 and shp[0] == shp[1]:
                if fill[0] == "herm":
                    a = a + a.conj().T
                elif fill[0] == "posdef":
                    a = a @ a.conj().T + np.eye(shp[0])
                else:
                    a = a + (np.abs(a).sum() + 1.0) * np.eye(shp[0])
            store[s] = np.asarray(a, dtype=dtype)
        return {s: store[s] for s in sectors}
    vals = tag_values(total, fill)
    pos = 0
    store = {}
    for s in sorted(sectors):
        n = sizes[s]
        chunk = [to_value(t, dtype) for t in vals[pos : pos + n]]
        pos += n
        arr = np.empty(n, dtype=dtype)
        for i, v in enumerate(chunk):
            arr[i] = v
        store[s] = arr.reshape(shapes[s])
    return {s: store[s] for s in sectors}


# --------------------------------------------------------------------------- #
# array descriptors


def arrd(sym, indices, charge, sectors, ferm=False, cls="dyn", phases=(), oddpos=None,
         dtype="float64", fill=("seq", 1)):
    return {
        "sym": sym,
        "ferm": bool(ferm),
        "cls": cls,
        "indices": tuple(indices),
        "charge": charge,
        "sectors": tuple(sectors),
        "phases": tuple(phases),
        "oddpos": oddpos,
        "dtype": dtype,
        "fill": tuple(fill),
    }


def get_class(sym, ferm, cls):
    import symmray as sr

    if cls == "static":
        name = sym + ("FermionicArray" if ferm else "Array")
        return getattr(sr, name), {}
    base = sr.FermionicArray if ferm else sr.AbelianArray
    if cls == "dynobj":
        return base, {"symmetry": sr.get_symmetry(sym)}
    return base, {"symmetry": sym}


def parse_oddpos(oddpos):
    """descriptor form -> what the constructor accepts.
    None | scalar label | ("L", ((label, dual), ...)) explicit list"""
    from symmray import FermionicOperator

    if isinstance(oddpos, tuple) and len(oddpos) == 2 and oddpos[0] == "L":
        return [FermionicOperator(l, d) for l, d in oddpos[1]]
    return oddpos


def build(d):
    """Build the real symmray array for descriptor ``d`` (fresh index objects)."""
    klass, kw = get_class(d["sym"], d["ferm"], d.get("cls", "dyn"))
    indices = tuple(make_index(i) for i in d["indices"])
    blocks = make_blocks(d["indices"], d["sectors"], d["fill"], d["dtype"])
    if d["ferm"]:
        kw = dict(kw)
        kw["phases"] = {s: -1 for s in d["phases"]}
        if d.get("explicit_plus"):
            kw["phases"].update({s: 1 for s in d["sectors"] if s not in kw["phases"]})
        kw["oddpos"] = parse_oddpos(d["oddpos"])
    x = klass(indices=indices, charge=d["charge"], blocks=blocks, **kw)
    for op in d.get("derive", ()):
        x = apply_derive(x, op)
    return x


def apply_derive(x, op):
    name = op[0]
    if name == "fuse":
        return x.fuse(*op[1])
    if name == "conj":
        return x.conj()
    if name == "transpose":
        return x.transpose(tuple(op[1]))
    if name == "sync_charges":
        return x.sync_charges()
    if name == "phase_flip":
        return x.phase_flip(*op[1])
    if name == "phase_sector_all":
        # a pending sign on every other stored sector (through the public phase_sector)
        for k, sec in enumerate(sorted(x.blocks)):
            if k % 2 == op[1]:
                x = x.phase_sector(sec)
        return x
    raise ValueError(op)


def oddpos_key(x):
    return tuple((o.label, bool(o.dual)) for o in x.oddpos)


# --------------------------------------------------------------------------- #
# structure keys, snapshots


def structure_key(x):
    import symmray as sr

    if isinstance(x, sr.BlockVector):
        return ("BV", tuple((k, tuple(np.shape(v)), str(getattr(v, "dtype", type(v)))) for k, v in x.blocks.items()))
    if isinstance(x, sr.AbelianArray):
        return (
            type(x).__name__,
            type(x.symmetry).__name__,
            x.charge,
            tuple(index_key(i) for i in x.indices),
            tuple((s, tuple(np.shape(b)), str(getattr(b, "dtype", type(b)))) for s, b in x.blocks.items()),
            frozenset(x.phases.items()) if x.fermionic else None,
            oddpos_key(x) if x.fermionic else None,
        )
    return ("scalar", type(x).__name__)


def _bytes(b):
    b = np.asarray(b)
    if b.dtype == object:
        return repr(b.tolist())
    return b.tobytes()


def snapshot(x):
    """Everything observable about an operand, bit for bit, order included."""
    import symmray as sr

    if isinstance(x, sr.BlockVector):
        return ("BV", tuple((k, _bytes(v), str(np.asarray(v).dtype), np.shape(v)) for k, v in x.blocks.items()))
    if isinstance(x, sr.AbelianArray):
        return (
            type(x).__name__,
            type(x.symmetry).__name__,
            x.charge,
            tuple(index_key(i) for i in x.indices),
            tuple((s, _bytes(b), str(np.asarray(b).dtype), np.shape(b)) for s, b in x.blocks.items()),
            tuple(x.phases.items()) if x.fermionic else None,
            oddpos_key(x) if x.fermionic else None,
        )
    if isinstance(x, np.ndarray):
        return ("nd", _bytes(x), str(x.dtype), x.shape)
    return ("py", repr(x))


def hcopy(x):
    """Harness deep copy (never uses the library's copy)."""
    import symmray as sr

    if isinstance(x, sr.BlockVector):
        return sr.BlockVector({k: np.array(v, copy=True) for k, v in x.blocks.items()})
    new = x.__new__(x.__class__)
    new._indices = tuple(x._indices)
    new._charge = x._charge
    new._symmetry = x._symmetry
    new._blocks = {k: np.array(v, copy=True) for k, v in x._blocks.items()}
    if x.fermionic:
        new._phases = dict(x.phases)
        new._oddpos = tuple(x.oddpos)
    return new


def describe(x):
    """Short human readable description for samples / reports."""
    import symmray as sr

    if isinstance(x, sr.BlockVector):
        return {"BlockVector": {repr(k): list(np.shape(v)) for k, v in x.blocks.items()}}
    if isinstance(x, sr.AbelianArray):
        d = {
            "class": type(x).__name__,
            "symmetry": type(x.symmetry).__name__,
            "charge": repr(x.charge),
            "indices": [("-" if i.dual else "+") + repr(dict(i.chargemap)) + ("*" if i.subinfo else "") for i in x.indices],
            "sectors": [repr(s) for s in x.blocks],
        }
        if x.fermionic:
            d["phases"] = [repr(s) for s, p in x.phases.items() if p == -1]
            d["oddpos"] = repr(x.oddpos)
        return d
    return repr(x)


# --------------------------------------------------------------------------- #
# R-dense: the harness's own embedding


def frame_of(x):
    return tuple(tuple(sorted(ix.chargemap.items())) for ix in x.indices)


def frame_offsets(frame):
    offs = []
    for table in frame:
        o = {}
        p = 0
        for c, d in table:
            o[c] = (p, d)
            p += d
        offs.append((o, p))
    return offs


def embed(x, frame=None, apply_phases=True, dtype=None):
    """Dense array of ``x`` placed in ``frame`` (default: x's own tables).
    Raises KeyError / ValueError if a stored sector does not fit the frame."""
    if frame is None:
        frame = frame_of(x)
    offs = frame_offsets(frame)
    if dtype is None:
        dts = [np.asarray(b).dtype for b in x.blocks.values()]
        dtype = np.result_type(*dts) if dts and all(dt != object for dt in dts) else (object if dts else np.float64)
    shape = tuple(p for _, p in offs)
    out = np.zeros(shape, dtype=dtype)
    phases = x.phases if (apply_phases and getattr(x, "fermionic", False)) else {}
    for sec, blk in x.blocks.items():
        blk = np.asarray(blk)
        sl = []
        for ax, c in enumerate(sec):
            start, d = offs[ax][0][c]
            if blk.shape[ax] != d:
                raise ValueError(f"block {sec} axis {ax} has size {blk.shape[ax]}, frame says {d}")
            sl.append(slice(start, start + d))
        if phases.get(sec, 1) == -1:
            blk = -blk
        out[tuple(sl)] = blk
    return out


def embed_vector(v, table):
    """BlockVector -> dense in the given (charge,size) table (sorted)."""
    offs, total = frame_offsets((tuple(table),))[0]
    dts = [np.asarray(b).dtype for b in v.blocks.values()]
    out = np.zeros(total, dtype=np.result_type(*dts) if dts else np.float64)
    for c, blk in v.blocks.items():
        start, d = offs[c]
        if np.shape(blk) != (d,):
            raise ValueError("vector block size")
        out[start : start + d] = blk
    return out


def axis_parities(x):
    """per axis integer vector: parity of the charge owning each linear position (sorted charge order)"""
    sym = type(x.symmetry).__name__
    out = []
    for ix in x.indices:
        p = []
        for c in sorted(ix.chargemap):
            p += [G.parity(sym, c)] * ix.chargemap[c]
        out.append(np.array(p, dtype=int))
    return out


def sym_name(x):
    return type(x.symmetry).__name__


def exact_equal(a, b):
    a = np.asarray(a)
    b = np.asarray(b)
    if a.shape != b.shape:
        return False
    if a.dtype == object or b.dtype == object:
        return a.tolist() == b.tolist()
    return bool(np.array_equal(a, b))


# --------------------------------------------------------------------------- #
# enumeration helpers for the universe


def sparsity_patterns(sectors, mode):
    """subsets of the (sorted) valid sectors to *store*."""
    sectors = list(sectors)
    n = len(sectors)
    if mode == "full":
        return [tuple(sectors)]
    if mode == "all":
        out = []
        for r in range(n, -1, -1):
            for sub in itertools.combinations(sectors, r):
                out.append(sub)
        return out
    if mode == "le1":
        out = [tuple(sectors)]
        if n > 1:
            for i in range(n):
                out.append(tuple(s for j, s in enumerate(sectors) if j != i))
        if n > 2:
            for i in range(n):
                out.append((sectors[i],))
        out.append(())
        return out
    if mode == "probe":
        out = [tuple(sectors)]
        if n > 1:
            out.append(tuple(sectors[1:]))
            out.append(tuple(sectors[:-1]))
        if n > 2:
            out.append(tuple(sectors[::2]))
        if n > 3:
            # very sparse: two far-apart sectors only (in a fuse every stored block then lands in a fused block of its own)
            out.append((sectors[0], sectors[-1]))
        return out
    if mode == "probe0":
        out = [tuple(sectors)]
        if n > 1:
            out.append(tuple(sectors[1:]))
        return out
    raise ValueError(mode)


def order_variants(sectors, which=("sorted", "reversed", "rotated")):
    sectors = tuple(sectors)
    out = []
    seen = set()
    for w in which:
        if w == "sorted":
            v = sectors
        elif w == "reversed":
            v = sectors[::-1]
        elif w == "rotated":
            v = sectors[1:] + sectors[:1]
        else:
            raise ValueError(w)
        if v not in seen:
            seen.add(v)
            out.append(v)
    return out


def index_structs(sym, n, menu, size_name="a", duals_all=True):
    """all combinations of menu charge subsets x direction patterns for n axes.
    yields tuple of index descriptors"""
    for subsets in itertools.product(menu, repeat=n):
        for duals in itertools.product((False, True), repeat=n) if duals_all else [(False,) * n]:
            yield tuple(
                ixd(G.size_table(size_name, cs, ax), d) for ax, (cs, d) in enumerate(zip(subsets, duals))
            )


def tables_of(indices):
    return [tuple(c for c, _ in ix[0]) for ix in indices]


def duals_of(indices):
    return tuple(ix[1] for ix in indices)


def charges_for(sym, indices, include_empty=False):
    cl = G.charge_closure(sym, tables_of(indices), duals_of(indices))
    if include_empty:
        for c in (G.ALPHABET[sym]):
            if c not in cl:
                cl = cl + [c]
                break
    return cl


def conj_ixd(d):
    cm, dual, sub = d
    if sub is not None:
        sub = (tuple(conj_ixd(s) for s in sub[0]), sub[1])
    return (cm, not dual, sub)


# --------------------------------------------------------------------------- #
# bridge to the graded reference model


def gt_of(x):
    """graded tensor (R-graded input) of a real fermionic array, via the harness embedding"""
    from .ref_graded import GT

    return GT(embed(x), axis_parities(x), x.duals, oddpos_key(x))


def pars_in_frame(sym, frame):
    out = []
    for table in frame:
        p = []
        for c, d in table:
            p += [G.parity(sym, c)] * d
        out.append(np.array(p, dtype=int))
    return out
