"""R-fock: second quantisation by Jordan-Wigner matrices (DESIGN 4.7).
No symmray import.  Operators are (label, dual) pairs, dual=True = creation."""

import itertools

import numpy as np


def jw_ops(modes):
    """label -> annihilation matrix on the 2**M dimensional Fock space; mode order = list order"""
    M = len(modes)
    I = np.eye(2)
    Z = np.diag([1.0, -1.0])
    a = np.array([[0.0, 1.0], [0.0, 0.0]])
    ops = {}
    for k, lab in enumerate(modes):
        m = np.array([[1.0]])
        for x in [Z] * k + [a] + [I] * (M - k - 1):
            m = np.kron(m, x)
        ops[lab] = m
    return ops


def vac(M):
    v = np.zeros(2 ** M)
    v[0] = 1.0
    return v


def opmat(ops, op):
    lab, dual = op
    return ops[lab].T.conj() if dual else ops[lab]


def string_mat(ops, string, dim):
    m = np.eye(dim)
    for op in string:
        m = m @ opmat(ops, op)
    return m


def all_modes(terms, bases):
    return sorted({op[0] for b in bases for st in b for op in st} | {op[0] for _, t in terms for op in t})


def operator_matrix(terms, modes):
    ops = jw_ops(modes)
    dim = 2 ** len(modes)
    O = np.zeros((dim, dim), dtype=complex if any(isinstance(c, complex) for c, _ in terms) else float)
    for c, t in terms:
        O = O + c * string_mat(ops, t, dim)
    return O


def elements_ref(terms, bases):
    """documented element convention: o[l..., r...] = <0| (B_1[l_1])^dag (B_2[l_2])^dag ... O B_1[r_1] B_2[r_2] ... |0>
    (bra sites NOT reversed).  Returns dict index -> value (non-zero only)."""
    modes = all_modes(terms, bases)
    ops = jw_ops(modes)
    dim = 2 ** len(modes)
    v0 = vac(len(modes))
    O = operator_matrix(terms, modes) if terms else np.zeros((dim, dim))
    out = {}

    def ket(idx):
        s = []
        for b, i in zip(bases, idx):
            s += list(b[i])
        return string_mat(ops, s, dim) @ v0

    def bra(idx):
        m = np.eye(dim)
        for b, i in zip(bases, idx):
            st = [(lab, not d) for lab, d in reversed(b[i])]
            m = m @ string_mat(ops, st, dim)
        return v0 @ m

    ranges = [range(len(b)) for b in bases]
    kets = {ri: ket(ri) for ri in itertools.product(*ranges)}
    for li in itertools.product(*ranges):
        bl = bra(li) @ O
        for ri, kv in kets.items():
            val = bl @ kv
            if abs(val) > 1e-14:
                out[(*li, *ri)] = val
    return out


def true_matrix(terms, bases):
    """H[l, r] = <l| O |r> with |r> = B_1[r_1] B_2[r_2] ... |0> and <l| = (|l>)^dag"""
    modes = all_modes(terms, bases)
    ops = jw_ops(modes)
    dim = 2 ** len(modes)
    v0 = vac(len(modes))
    O = operator_matrix(terms, modes)
    idxs = list(itertools.product(*[range(len(b)) for b in bases]))
    kets = []
    for idx in idxs:
        s = []
        for b, i in zip(bases, idx):
            s += list(b[i])
        kets.append(string_mat(ops, s, dim) @ v0)
    K = np.array(kets).T
    return K.conj().T @ O @ K, idxs


def sign_convention(bases, idxs):
    """D = diag((-1) ** sum_{i<j} p_i p_j), p_s = parity of the local state on site s (informational)"""
    P = [[len(st) % 2 for st in b] for b in bases]
    out = []
    for idx in idxs:
        p = [P[k][i] for k, i in enumerate(idx)]
        e = sum(p[i] * p[j] for i in range(len(p)) for j in range(i + 1, len(p)))
        out.append((-1) ** e)
    return np.array(out, dtype=float)
