"""C02 - abelian contraction equals dense contraction.

E-enum over contractible pairs (and single arrays for trace / einsum): the
result, embedded by the harness into the tables of the uncontracted operand
indices, must equal numpy's contraction of the harness-embedded operands
exactly (integer tags)."""

import itertools

import numpy as np

from .. import groups as G
from .. import universe as U
from ..arrays import build, describe, embed, exact_equal, frame_of, index_plain_key
from ..runner import REFUSAL_TYPES, Stats

PROP = "C02"
BUDGET = {"quick": 400, "thorough": 3600}

# (n_a, n_b, ncon, menu_a, menu_b, charges, sparsity_a, sparsity_b, perms, axes, nchunks)
PLANS = {
    "quick": [
        (0, 0, 0, "m3", "m3", "all+empty", "all", "all", "all", "all", 1),
        (1, 0, 0, "core", "m3", "all+empty", "all", "all", "all", "all", 1),
        (0, 1, 0, "m3", "core", "all+empty", "all", "all", "all", "all", 1),
        (1, 1, 0, "core", "core", "all", "le1", "le1", "all", "all", 1),
        (1, 1, 1, "core", "core", "all+empty", "all", "all", "all", "all", 1),
        (2, 1, 1, "m3", "m3", "all", "le1", "all", "all", "all", 2),
        (1, 2, 1, "m3", "m3", "all", "all", "le1", "all", "all", 2),
        (2, 2, 1, "m3", "m3", "all", "le1", "probe", "all", "all", 8),
        (2, 2, 2, "m3", "m3", "all", "le1", "le1", "all", "all", 4),
        (2, 1, 0, "m2", "m2", "two", "probe", "probe0", "all", "all", 1),
        (2, 2, 0, "m2", "m2", "two", "probe0", "probe0", "some", "all", 2),
        (3, 1, 1, "m2", "m2", "two", "probe", "probe", "some", "all", 2),
        (3, 2, 1, "m2", "m2", "two", "probe", "probe0", "some", "some", 8),
        (3, 2, 2, "m2", "m2", "two", "probe", "probe", "some", "all", 8),
        (3, 3, 2, "m2", "m1", "two", "probe0", "probe0", "some", "some", 12),
        (3, 3, 3, "m2", "m2", "two", "probe", "probe", "some", "some", 12),
        # 4-index first operand (2 free + 2 contracted legs): the smallest case in which the fused path has to zero-fill holes
        (4, 2, 2, "m1", "m1", "two", "probe", "probe0", "all", "some", 4),
        (4, 3, 2, "m1", "m1", "one", "probe", "probe0", "some", "some", 8),
    ],
}
PLANS["thorough"] = PLANS["quick"] + [
    (2, 2, 1, "core", "m3", "all", "le1", "le1", "all", "all", 32),
    (2, 2, 2, "core", "m3", "all", "le1", "le1", "all", "all", 16),
    (3, 2, 1, "m3", "m3", "two", "le1", "probe", "all", "all", 48),
    (3, 3, 1, "m2", "m2", "two", "probe", "probe0", "some", "some", 32),
    (3, 3, 2, "m3", "m2", "two", "probe", "probe", "some", "some", 64),
    (3, 3, 3, "m3", "m3", "all", "le1", "probe", "some", "all", 64),
]

META = {
    "rule": "pairs (a, b, axes): a over the index menu x all directions x charges x sparsity; b = conjugates of a's contracted indices + free menu "
    "indices, independent charge / sparsity / block order, every axis placement; each pair is contracted in modes fused, blockwise, auto (and @, "
    "autoray.do, preserve_array where they apply) and compared exactly with numpy.tensordot of the harness embeddings; single arrays: trace and "
    "every one-/two-pair einsum. non-trivial = at least two aligned block pairs accumulate into one result block or at least one stored block of an operand has no partner",
    "bounds": {"quick": "plans in mc/checks/c02.py PLANS['quick'] (n<=3 per operand, <=3 charges per index)", "thorough": "PLANS['thorough']"},
    "assumptions": [
        "block values are distinct integer tags (float64 / complex128 with Gaussian-integer values); all arithmetic exact below 2**53",
        "data obliviousness of the contraction code (monitored: complex and permuted tag assignment give the same verdict)",
        "numpy.tensordot / einsum on small dense arrays is correct",
    ],
}

MODES = ("fused", "blockwise", "auto")


def groups(ctx):
    out = []
    for sym in G.SYMS:
        for pi, plan in enumerate(PLANS[ctx.tier]):
            for k in range(plan[-1]):
                out.append(("pair", sym, pi, k))
        for n in (2, 3, 4):
            out.append(("single", sym, n))
    return out


def free_frame(a, b, axes_a, axes_b):
    fa = [frame_of(a)[i] for i in range(a.ndim) if i not in axes_a]
    fb = [frame_of(b)[i] for i in range(b.ndim) if i not in axes_b]
    return tuple(fa + fb)


def compare_result(sym, c, ref, frame, duals, charge, what):
    """returns list of (kind, detail)"""
    import symmray as sr

    out = []
    if ref.ndim == 0 and not isinstance(c, sr.AbelianArray):
        val = c.item() if hasattr(c, "item") else c
        if val != ref.item():
            out.append(("value", f"{what}: scalar {val!r} expected {ref.item()!r}"))
        return out
    if not isinstance(c, sr.AbelianArray):
        return [("type", f"{what}: returned {type(c).__name__}")]
    if c.ndim != ref.ndim:
        return [("rank", f"{what}: ndim {c.ndim} expected {ref.ndim}")]
    if tuple(c.duals) != tuple(duals):
        out.append(("directions", f"{what}: duals {c.duals} expected {duals}"))
    if c.charge != charge:
        out.append(("charge", f"{what}: charge {c.charge!r} expected {charge!r}"))
    try:
        got = embed(c, frame, dtype=ref.dtype)
    except (KeyError, ValueError) as e:
        out.append(("frame", f"{what}: result does not fit the operand tables: {e!r}"))
        return out
    if not exact_equal(got, ref):
        out.append(("value", f"{what}: dense value differs (max abs diff {np.max(np.abs(got - ref))})"))
    return out


def pair_failures(a_d, b_d, axes_a, axes_b, st=None, entry="all"):
    import autoray as ar
    import symmray as sr

    sym = a_d["sym"]
    a = build(a_d)
    b = build(b_d)
    fails = []
    A = embed(a)
    B = embed(b)
    ref = np.tensordot(A, B, axes=(list(axes_a), list(axes_b)))
    frame = free_frame(a, b, axes_a, axes_b)
    duals = tuple(a.duals[i] for i in range(a.ndim) if i not in axes_a) + tuple(b.duals[i] for i in range(b.ndim) if i not in axes_b)
    charge = G.combine(sym, a.charge, b.charge)
    ncon = len(axes_a)

    def run(name, fn):
        try:
            c = fn()
        except Exception as e:
            fails.append((f"C02/{name}/raised-{type(e).__name__}", f"{e}"))
            return
        if st is not None:
            st.transitions += 1
        for kind, det in compare_result(sym, c, ref, frame, duals, charge, name):
            fails.append((f"C02/{name}/{kind}", det))

    axes = (tuple(axes_a), tuple(axes_b))
    for mode in MODES:
        run(f"tensordot[{mode}]", lambda: sr.tensordot(a, b, axes, mode=mode))
    run("tensordot[preserve_array]", lambda: sr.tensordot(a, b, axes, preserve_array=True))
    run("autoray.tensordot", lambda: ar.do("tensordot", a, b, axes))
    # negative axes spelling
    if ncon:
        neg = (tuple(x - a.ndim for x in axes_a), tuple(x - b.ndim for x in axes_b))
        run("tensordot[negative-axes]", lambda: sr.tensordot(a, b, neg, mode="blockwise"))
    # integer axes form
    if tuple(axes_a) == tuple(range(a.ndim - ncon, a.ndim)) and tuple(axes_b) == tuple(range(ncon)):
        run("tensordot[int-axes]", lambda: sr.tensordot(a, b, ncon))
    # default mode through the context manager
    def via_default():
        with sr.default_tensordot_mode("blockwise"):
            return sr.tensordot(a, b, axes, mode=None)

    run("tensordot[default-mode]", via_default)
    # matmul
    if 1 <= a.ndim <= 2 and 1 <= b.ndim <= 2 and ncon == 1 and axes_a == (a.ndim - 1,) and axes_b == (0,):
        run("matmul", lambda: a @ b)
    return fails, (a, b, A, B)


def nontrivial_pair(a, b, axes_a, axes_b):
    ka = [tuple(s[i] for i in axes_a) for s in a.blocks]
    kb = [tuple(s[i] for i in axes_b) for s in b.blocks]
    if set(ka) - set(kb) or set(kb) - set(ka):
        return True
    # accumulation: two a-blocks with the same free part and both aligned
    fa = {}
    for s in a.blocks:
        key = tuple(s[i] for i in range(a.ndim) if i not in axes_a)
        fa[key] = fa.get(key, 0) + 1
    return any(v > 1 for v in fa.values()) and len(b.blocks) > 0


def run_group(ctx, group):
    if group[0] == "pair":
        return run_pairs(ctx, *group[1:])
    return run_single(ctx, *group[1:])


def run_pairs(ctx, sym, pi, k):
    st = Stats()
    (n_a, n_b, ncon, menu_a, menu_b, charges, sp_a, sp_b, perms, axes, nchunks) = PLANS[ctx.tier][pi]
    variant = ctx.seed % 2
    idx = -1
    for a_d in U.arrays(sym, n_a, menu_a, "a", charges, sp_a, orders=("sorted",)):
        idx += 1
        if idx % nchunks != k:
            continue
        st.states += 1
        for axes_a in U.axes_choices(n_a, ncon, axes):
            for b_d, axes_b in U.partners(sym, a_d, axes_a, n_b - ncon, menu_b, "b", charges, sp_b,
                                           orders=("sorted", "reversed"), perms=perms, fill=("perm", 1000, ctx.seed)):
                if (st.evaluations + variant) % 5 == 0:
                    # complex variant of the same case
                    a_use = dict(a_d, dtype="complex128")
                    b_use = dict(b_d, dtype="complex128")
                else:
                    a_use, b_use = a_d, b_d
                fails, (a, b, A, B) = pair_failures(a_use, b_use, axes_a, axes_b, st)
                st.evaluations += 1
                st.traces += 1
                if nontrivial_pair(a, b, axes_a, axes_b):
                    st.nontrivial += 1
                for sig, det in fails:
                    st.violation(sig, {"kind": "pair", "a": a_use, "b": b_use, "axes_a": axes_a, "axes_b": axes_b}, det)
                if st.evaluations == 7 and k == 0:
                    st.sample({"a": describe(a), "b": describe(b), "axes": [list(axes_a), list(axes_b)]})
    st.tiers_done[f"plan{pi}"] += 1
    return st


# --------------------------------------------------------------------------- #
# single array: trace / einsum


def einsum_eqs(n, pairs_ok):
    """all equations with output a permutation of the kept letters and 0..2 traced pairs
    pairs_ok: set of frozenset({i,j}) that may be traced"""
    letters = "abcdefgh"
    out = []
    axes = list(range(n))
    for npairs in range(0, 3):
        for chosen in itertools.combinations(sorted(pairs_ok, key=sorted), npairs):
            used = [i for p in chosen for i in p]
            if len(set(used)) != len(used):
                continue
            lhs = [None] * n
            li = 0
            for p in chosen:
                for i in p:
                    lhs[i] = letters[li]
                li += 1
            kept = []
            for i in axes:
                if lhs[i] is None:
                    lhs[i] = letters[li]
                    kept.append(letters[li])
                    li += 1
            for perm in itertools.permutations(kept):
                out.append("".join(lhs) + "->" + "".join(perm))
    return out


def single_failures(d, st=None):
    import autoray as ar
    import symmray as sr

    x = build(d)
    X = embed(x)
    fails = []
    n = x.ndim
    keys = [index_plain_key(ix) for ix in x.indices]
    pairs_ok = set()
    for i in range(n):
        for j in range(i + 1, n):
            if keys[i][0] == keys[j][0] and keys[i][1] != keys[j][1]:
                pairs_ok.add((i, j))
    frame_full = frame_of(x)
    for eq in einsum_eqs(n, pairs_ok):
        lhs, rhs = eq.split("->")
        ref = np.einsum(eq, X)
        kept_axes = [lhs.index(q) for q in rhs]
        frame = tuple(frame_full[i] for i in kept_axes)
        duals = tuple(x.duals[i] for i in kept_axes)
        for name, fn in (("einsum", lambda: x.einsum(eq)), ("sr.einsum", lambda: sr.einsum(eq, x)), ("autoray.einsum", lambda: ar.do("einsum", eq, x))):
            try:
                c = fn()
            except Exception as e:
                fails.append((f"C02/{name}/raised-{type(e).__name__}", f"{eq}: {e}"))
                continue
            if st is not None:
                st.transitions += 1
            for kind, det in compare_result(d["sym"], c, np.asarray(ref), frame, duals, x.charge, f"{name}({eq})"):
                fails.append((f"C02/{name}/{kind}", det))
        if rhs == "":
            try:
                c = x.einsum(eq, preserve_array=True)
                for kind, det in compare_result(d["sym"], c, np.asarray(ref), frame, duals, x.charge, f"einsum-preserve({eq})"):
                    if not (kind == "type"):
                        fails.append((f"C02/einsum[preserve_array]/{kind}", det))
                if not isinstance(c, sr.AbelianArray):
                    fails.append(("C02/einsum[preserve_array]/type", f"{type(c)}"))
            except Exception as e:
                fails.append((f"C02/einsum[preserve_array]/raised-{type(e).__name__}", f"{eq}: {e}"))
    if n == 2 and (0, 1) in pairs_ok:
        ref = np.trace(X)
        for name, fn in (("trace", lambda: x.trace()), ("sr.trace", lambda: sr.trace(x)), ("autoray.trace", lambda: ar.do("trace", x))):
            try:
                c = fn()
                if st is not None:
                    st.transitions += 1
                if c != ref:
                    fails.append((f"C02/{name}/value", f"{c!r} expected {ref!r}"))
            except Exception as e:
                fails.append((f"C02/{name}/raised-{type(e).__name__}", f"{e}"))
    return fails, len(pairs_ok)


def single_arrays(ctx, sym, n):
    """arrays with n axes in which up to two pairs of axes are conjugate copies of each other"""
    from ..arrays import arrd, conj_ixd

    menu = "m3" if n <= 3 else "m2"
    sp = {2: "all", 3: "le1", 4: "probe"}[n]
    # patterns: which axes are conjugate partners of which
    if n == 2:
        patterns = [((0, 1),), ()]
    elif n == 3:
        patterns = [((0, 1),), ((0, 2),), ((1, 2),), ()]
    else:
        patterns = [((0, 1), (2, 3)), ((0, 2), (1, 3)), ((0, 3), (1, 2)), ((1, 2),), ((0, 3),)]
    for pat in patterns:
        partner = {j: i for i, j in pat}
        free_axes = [ax for ax in range(n) if ax not in partner]
        for free in U.index_tuples(sym, len(free_axes), menu, "a"):
            indices = [None] * n
            for ax, ix in zip(free_axes, free):
                indices[ax] = ix
            for j, i in partner.items():
                indices[j] = conj_ixd(indices[i])
            yield from U.arrays_over(sym, tuple(indices), "all" if n <= 3 else "two", sp, orders=("sorted", "reversed") if n == 2 else ("sorted",))


def run_single(ctx, sym, n):
    st = Stats()
    for i, d in enumerate(single_arrays(ctx, sym, n)):
        if i % 4 == (ctx.seed % 4):
            d = dict(d, dtype="complex128")
        fails, npairs = single_failures(d, st)
        st.evaluations += 1
        st.states += 1
        st.traces += 1
        if npairs and len(d["sectors"]) >= 2:
            st.nontrivial += 1
        for sig, det in fails:
            st.violation(sig, {"kind": "single", "x": d}, det)
        if i == 11:
            st.sample({"single": describe(build(d))})
    return st


def replay(ctx, case):
    if case["kind"] == "pair":
        return pair_failures(case["a"], case["b"], tuple(case["axes_a"]), tuple(case["axes_b"]))[0]
    return single_failures(case["x"])[0]
