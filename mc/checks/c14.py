"""C14 - operations never modify their operands unless asked to.

E-bfs (depth 2): before every call the harness snapshots the shared operands
bit for bit and marks their blocks read-only; after the call the snapshots
must be identical.  For every operation with an in-place flag the in-place
result must be the very object it was given and equal the out-of-place result."""

import numpy as np

from .. import groups as G
from .. import universe as U
from ..arrays import build, describe, exact_equal, hcopy, index_key, oddpos_key, snapshot
from ..audit import result_objects
from ..catalogue import find_op, ops_for
from ..runner import Stats, reset_library_state
from .c01 import family, vector_roots

PROP = "C14"
BUDGET = {"quick": 420, "thorough": 3600}
META = {
    "rule": "roots: abelian / fermionic (with pending signs and labels) arrays n<=3 and block vectors; depth 1: every catalogue operation on the frozen root; "
    "depth 2: every operation (out-of-place and, where offered, in-place on the intermediate) applied to every array result of every first operation - results share "
    "memory with the root, which must stay bit-identical; in-place flag: op(copy, inplace=True) must return the copy itself and equal op(x). "
    "non-trivial = call whose result shares memory with an operand or an in-place call",
    "bounds": {"quick": "depth 1 on all roots; depth 2 from roots with n<=2 (core menu at depth 2)", "thorough": "depth 2 from all roots"},
    "assumptions": [
        "operand blocks are marked read-only (numpy writeable flag): a write through any view raises at the faulty line and is reported",
        "documented mutators (fill_missing_blocks, drop_missing_blocks, apply_to_arrays, set_params, augmented assignment) are applied to a library copy of the operand; the operand itself must still be unchanged",
    ],
}


def freeze(x):
    for b in x.blocks.values():
        if isinstance(b, np.ndarray):
            b.flags.writeable = False


def same_value(a, b):
    import symmray as sr

    if type(a) is not type(b):
        return False
    if isinstance(a, sr.BlockVector):
        return set(a.blocks) == set(b.blocks) and all(exact_equal(a.blocks[k], b.blocks[k]) for k in a.blocks)
    if isinstance(a, sr.AbelianArray):
        if a.charge != b.charge or tuple(index_key(i) for i in a.indices) != tuple(index_key(i) for i in b.indices):
            return False
        if set(a.blocks) != set(b.blocks) or not all(exact_equal(a.blocks[k], b.blocks[k]) and np.asarray(a.blocks[k]).dtype == np.asarray(b.blocks[k]).dtype for k in a.blocks):
            return False
        if a.fermionic:
            pa = {k: v for k, v in a.phases.items() if v == -1}
            pb = {k: v for k, v in b.phases.items() if v == -1}
            if pa != pb or oddpos_key(a) != oddpos_key(b):
                return False
        return True
    if isinstance(a, (tuple, list)):
        return len(a) == len(b) and all(same_value(p, q) for p, q in zip(a, b))
    if isinstance(a, np.ndarray):
        return exact_equal(a, b)
    if isinstance(a, dict):
        return set(a) == set(b) and all(exact_equal(a[k], b[k]) for k in a)
    try:
        return bool(a == b) or (a != a and b != b)
    except Exception:
        return True


def shares_memory(r, x):
    try:
        xb = [b for b in x.blocks.values() if isinstance(b, np.ndarray)]
        for o in result_objects(r):
            for b in o.blocks.values():
                if isinstance(b, np.ndarray) and any(np.shares_memory(b, q) for q in xb):
                    return True
    except Exception:
        pass
    return False


def apply_checked(op, target, watched, fails, st, where, inplace=False):
    """call op on target; every object in ``watched`` (list of (name, obj, snapshot)) must be unchanged.
    returns the result or None"""
    try:
        with np.errstate(all="ignore"):
            r = op.inplace(target) if inplace else op.fn(target)
    except ValueError as e:
        if "read-only" in str(e):
            fails.append((f"C14/{family(op)}/write-to-operand-memory", f"{where}: {op.name}{'[inplace]' if inplace else ''}: {e}"))
        elif st is not None:
            st.refuse(family(op), e)
        r = None
    except Exception as e:
        if st is not None:
            st.refuse(family(op), e)
        r = None
    else:
        if st is not None:
            st.transitions += 1
    for name, obj, snap in watched:
        if snapshot(obj) != snap:
            fails.append((f"C14/{family(op)}/operand-modified", f"{where}: {op.name}{'[inplace]' if inplace else ''} changed {name}"))
    return r


def case_failures(root, first=None, st=None, depth2=True, level2="core"):
    """root: descriptor or ('vector', sym, k).  first: restrict to one first-op name (replay)"""
    fails = []
    x = build_root(root)
    freeze(x)
    sx = snapshot(x)
    nontrivial = 0
    for op in ops_for(x, "full"):
        if first is not None and op.name != first:
            continue
        r = apply_checked(op, x, [("the operand", x, sx)], fails, st, "depth1")
        if st is not None:
            st.evaluations += 1
        if r is None:
            continue
        if shares_memory(r, x):
            nontrivial += 1
        # in-place flag equivalence
        if op.inplace is not None:
            y = hcopy(x)
            try:
                with np.errstate(all="ignore"):
                    r2 = op.inplace(y)
                if st is not None:
                    st.transitions += 1
                    st.evaluations += 1
                nontrivial += 1
                if r2 is not y:
                    fails.append((f"C14/{family(op)}/inplace-returns-other-object", f"{op.name}"))
                if not same_value(y, r):
                    fails.append((f"C14/{family(op)}/inplace-differs", f"{op.name}: in-place result differs from the out-of-place result"))
            except Exception as e:
                fails.append((f"C14/{family(op)}/inplace-raised-{type(e).__name__}", f"{op.name}: {e}"))
        if not depth2:
            continue
        for j, o in enumerate(result_objects(r)):
            if getattr(o, "ndim", 1) > 4:
                continue
            so = snapshot(o)
            for op2 in ops_for(o, level2):
                apply_checked(op2, o, [("the root operand", x, sx), ("the intermediate operand", o, so)], fails, st, f"depth2 after {op.name}[{j}]")
                if st is not None:
                    st.evaluations += 1
                if op2.inplace is not None:
                    # in place on an intermediate that shares memory with the root: only the root is watched
                    o2 = op.fn(x)
                    o2 = result_objects(o2)[j]
                    apply_checked(op2, o2, [("the root operand", x, sx)], fails, st, f"depth2 after {op.name}[{j}]", inplace=True)
                    if st is not None:
                        st.evaluations += 1
                    nontrivial += 1
    return fails, nontrivial


def build_root(root):
    if isinstance(root, tuple) and root[0] == "vector":
        return vector_roots(root[1])[root[2]]
    return build(root)


def roots(ctx, sym, ferm):
    out = []
    plans = [(0, "m3", "all", "all"), (1, "core", "all", "all"), (2, "m3", "all", "le1"), (3, "m2", "two", "probe")]
    for n, menu, charges, sp in plans:
        kw = dict(ferm=True, phases="probe", label=3) if ferm else {}
        for d in U.arrays(sym, n, menu, "a", charges, sp, **kw):
            out.append((n, d))
    # arrays whose leading two axes are a (bra, ket) / (ket, bra) pair of the same index: einsum / trace / eigh apply to the root itself
    from ..arrays import conj_ixd
    from .. import groups as GG

    for n in (2, 3):
        for rest in U.index_tuples(sym, n - 1, "m2" if n == 2 else "m1", "a"):
            for first_dual in (True, False):
                lead = (rest[0][0], first_dual, None)
                indices = (lead, conj_ixd(lead)) + tuple(rest[1:])
                kw = dict(ferm=True, phases="probe", label=3) if ferm else {}
                for d in U.arrays_over(sym, indices, "two", "probe", **kw):
                    out.append((n, d))
    return out


def groups(ctx):
    out = []
    for sym in G.SYMS:
        for ferm in (False, True):
            nch = 16 if not ctx.thorough else 48
            for k in range(nch):
                out.append((sym, ferm, k, nch))
        out.append((sym, "vector", 0, 1))
    return out


def run_group(ctx, group):
    sym, ferm, k, nch = group
    st = Stats()
    reset_library_state()
    if ferm == "vector":
        for i in range(len(vector_roots(sym))):
            fails, nt = case_failures(("vector", sym, i), st=st)
            st.states += 1
            st.traces += 1
            st.nontrivial += nt
            for sig, det in fails:
                st.violation(sig, {"root": ("vector", sym, i), "first": None}, det)
        return st
    for i, (n, d) in enumerate(roots(ctx, sym, ferm)):
        if i % nch != k:
            continue
        deep = ctx.thorough or n <= 2
        fails, nt = case_failures(d, st=st, depth2=deep)
        st.states += 1
        st.traces += 1
        st.nontrivial += nt
        for sig, det in fails:
            st.violation(sig, {"root": d, "first": None}, det)
        if len(d["sectors"]) >= 2 and not st.samples:
            st.sample({"root": describe(build(d)), "depth1_ops": [o.name for o in ops_for(build(d))][:12]})
    if not ctx.thorough:
        st.counters["capped"] += 1
        st.notes.append("quick: depth 2 only from roots with n<=2; n=3 roots explored to depth 1")
    return st


def replay(ctx, case):
    return case_failures(case["root"], first=case.get("first"), level2="core")[0]
