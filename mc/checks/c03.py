"""C03 - fermionic operations follow graded (Grassmann) tensor semantics.

E-enum: every fermionic pair / single array of the bounded universe is run
through the real transpose / tensordot / @ / trace / einsum and compared,
exactly, with the word-model reference R-graded (mc/ref_graded.py)."""

import itertools

import numpy as np

from .. import groups as G
from .. import ref_graded as RG
from .. import universe as U
from ..arrays import build, describe, embed, exact_equal, frame_of, gt_of, index_plain_key, oddpos_key
from ..runner import Stats
from .c02 import einsum_eqs, free_frame, single_arrays

PROP = "C03"
BUDGET = {"quick": 400, "thorough": 3600}

# (n_a, n_b, ncon, menu_a, menu_b, charges, sp_a, sp_b, ph_a, ph_b, perms, axes, nchunks)
PLANS = {
    "quick": [
        (0, 0, 0, "m3", "m3", "all", "all", "all", "all", "all", "all", "all", 1),
        (1, 0, 0, "core", "m3", "all", "all", "all", "all", "all", "all", "all", 1),
        (0, 1, 0, "m3", "core", "all", "all", "all", "all", "all", "all", "all", 1),
        (1, 1, 0, "m3", "m3", "all", "le1", "le1", "probe", "probe", "all", "all", 1),
        (1, 1, 1, "core", "core", "all", "all", "all", "all", "all", "all", "all", 1),
        (2, 1, 1, "m3", "m3", "all", "le1", "all", "probe", "probe", "all", "all", 4),
        (1, 2, 1, "m3", "m3", "all", "all", "probe", "probe", "probe0", "all", "all", 4),
        (2, 2, 1, "m3", "m3", "all", "probe", "probe0", "probe0", "one", "all", "all", 12),
        (2, 2, 2, "m3", "m3", "all", "le1", "probe", "probe0", "probe0", "all", "all", 8),
        (2, 2, 0, "m2", "m2", "two", "probe0", "probe0", "probe0", "probe0", "some", "all", 4),
        (3, 1, 1, "m2", "m2", "two", "probe", "probe", "probe0", "probe0", "some", "all", 4),
        (3, 2, 1, "m2", "m2", "two", "probe0", "probe0", "probe0", "one", "some", "some", 12),
        (3, 2, 2, "m2", "m2", "two", "probe", "probe0", "probe0", "one", "some", "all", 12),
        (3, 3, 2, "m2", "m1", "two", "probe0", "probe0", "one", "one", "some", "some", 16),
        (3, 3, 3, "m2", "m2", "two", "probe0", "probe0", "probe0", "one", "some", "some", 16),
        # 4-index first operand (2 free + 2 contracted legs): fused path with holes
        (4, 2, 2, "m1", "m1", "one", "probe0", "probe0", "probe0", "one", "some", "some", 8),
    ],
}
PLANS["thorough"] = PLANS["quick"] + [
    (2, 2, 1, "core", "m3", "all", "le1", "le1", "probe", "probe", "all", "all", 64),
    (2, 2, 2, "core", "m3", "all", "le1", "le1", "probe", "probe", "all", "all", 32),
    (3, 2, 1, "m3", "m3", "two", "le1", "probe", "probe0", "probe0", "all", "all", 64),
    (3, 3, 1, "m2", "m2", "two", "probe", "probe0", "probe0", "one", "some", "some", 48),
    (3, 3, 2, "m3", "m2", "two", "probe", "probe", "probe0", "one", "some", "some", 64),
    (3, 3, 3, "m3", "m3", "all", "probe", "probe", "probe0", "one", "some", "all", 64),
]

META = {
    "rule": "fermionic pairs (a, b, axes) as in C02 plus pending-sign tables and odd-position labels (both label orders when both operands are odd); "
    "modes fused / blockwise / auto and @; single arrays: every permutation (n<=4), trace in both direction orders, every one-/two-pair einsum; "
    "non-trivial = the reference result contains at least one -1 Koszul sign relative to the plain dense contraction",
    "bounds": {"quick": "PLANS['quick'] in mc/checks/c03.py (<=3 indices per operand, <=3 charges per index)", "thorough": "PLANS['thorough']"},
    "assumptions": [
        "R-graded word model (mc/ref_graded.py) is the specification: adjacent (bra, ket) pair = +1, (ket, bra) = -1; labels stand left of the axes",
        "integer tags, exact comparison; 'randomly beyond' clause of the quantifier is sampling and not claimed",
    ],
}

MODES = ("fused", "blockwise", "auto")


def groups(ctx):
    out = []
    for sym in G.SYMS:
        for pi, plan in enumerate(PLANS[ctx.tier]):
            for k in range(plan[-1]):
                out.append(("pair", sym, pi, k))
        for n in (1, 2, 3, 4):
            out.append(("single", sym, n))
    return out


def compare(sym, c, ref, frame, charge, what, labels=True):
    import symmray as sr

    out = []
    if ref.ndim == 0 and not isinstance(c, sr.AbelianArray):
        val = c.item() if hasattr(c, "item") else c
        if val != ref.arr.item():
            out.append(("value", f"{what}: scalar {val!r} expected {ref.arr.item()!r}"))
        return out
    if not isinstance(c, sr.FermionicArray):
        return [("type", f"{what}: returned {type(c).__name__}")]
    if c.ndim != ref.ndim:
        return [("rank", f"{what}: ndim {c.ndim} expected {ref.ndim}")]
    if tuple(c.duals) != tuple(ref.duals):
        out.append(("directions", f"{what}: duals {c.duals} expected {ref.duals}"))
    if c.charge != charge:
        out.append(("charge", f"{what}: charge {c.charge!r} expected {charge!r}"))
    if labels and oddpos_key(c) != tuple(ref.labels):
        out.append(("labels", f"{what}: oddpos {oddpos_key(c)} expected {ref.labels}"))
    try:
        got = embed(c, frame, dtype=ref.arr.dtype)
    except (KeyError, ValueError) as e:
        out.append(("frame", f"{what}: result does not fit the operand tables: {e!r}"))
        return out
    if not exact_equal(got, ref.arr):
        out.append(("value", f"{what}: graded value differs"))
    return out


def pair_failures(a_d, b_d, axes_a, axes_b, st=None):
    import autoray as ar
    import symmray as sr

    sym = a_d["sym"]
    a = build(a_d)
    b = build(b_d)
    fails = []
    ga, gb = gt_of(a), gt_of(b)
    ref = RG.contract(ga, gb, axes_a, axes_b)
    frame = free_frame(a, b, axes_a, axes_b)
    charge = G.combine(sym, a.charge, b.charge)
    ncon = len(axes_a)
    axes = (tuple(axes_a), tuple(axes_b))

    def run(name, fn):
        try:
            c = fn()
        except Exception as e:
            fails.append((f"C03/{name}/raised-{type(e).__name__}", f"{e}"))
            return
        if st is not None:
            st.transitions += 1
        for kind, det in compare(sym, c, ref, frame, charge, name):
            fails.append((f"C03/{name}/{kind}", det))

    for mode in MODES:
        run(f"tensordot[{mode}]", lambda: sr.tensordot(a, b, axes, mode=mode))
    run("autoray.tensordot[preserve_array]", lambda: ar.do("tensordot", a, b, axes, preserve_array=True))
    if tuple(axes_a) == tuple(range(a.ndim - ncon, a.ndim)) and tuple(axes_b) == tuple(range(ncon)):
        run("tensordot[int-axes]", lambda: sr.tensordot(a, b, ncon))
    if 1 <= a.ndim <= 2 and 1 <= b.ndim <= 2 and ncon == 1 and axes_a == (a.ndim - 1,) and axes_b == (0,):
        run("matmul", lambda: a @ b)
    plain = np.tensordot(np.abs(ga.arr), np.abs(gb.arr), axes=(list(axes_a), list(axes_b)))
    nontrivial = not exact_equal(plain, ref.arr) and bool(np.any(ref.arr != 0))
    return fails, (a, b, nontrivial)


def label_variants(a_odd, b_odd, composite=False):
    if a_odd and b_odd:
        out = [(1, 2), (2, 1)]
    elif a_odd:
        out = [(1, None)]
    elif b_odd:
        out = [(None, 2)]
    else:
        out = [(None, None)]
    if composite:
        # operands that are themselves products of odd tensors: several labels (even operand: 2, odd operand: 3)
        L = lambda *ls: ("L", tuple((l, False) for l in ls))
        la = L(1, 4, 6) if a_odd else L(1, 4)
        lb = L(2, 3, 5) if b_odd else L(2, 3)
        out = out + [(out[0][0], lb), (la, out[0][1]), (la, lb), (L(5, 7) if not a_odd else L(5, 7, 8), L(2, 6) if not b_odd else L(2, 3, 6))]
    return out


def run_group(ctx, group):
    if group[0] == "pair":
        return run_pairs(ctx, *group[1:])
    return run_single(ctx, *group[1:])


def run_pairs(ctx, sym, pi, k):
    st = Stats()
    (n_a, n_b, ncon, menu_a, menu_b, charges, sp_a, sp_b, ph_a, ph_b, perms, axes, nchunks) = PLANS[ctx.tier][pi]
    idx = -1
    for a_d in U.arrays(sym, n_a, menu_a, "a", charges, sp_a, orders=("sorted",), phases=ph_a, ferm=True, label="A"):
        idx += 1
        if idx % nchunks != k:
            continue
        st.states += 1
        a_odd = a_d["oddpos"] is not None
        for axes_a in U.axes_choices(n_a, ncon, axes):
            for b_d, axes_b in U.partners(sym, a_d, axes_a, n_b - ncon, menu_b, "b", charges, sp_b,
                                           orders=("sorted", "reversed"), perms=perms, phases=ph_b, ferm=True, label="B",
                                           fill=("perm", 1000, ctx.seed)):
                b_odd = b_d["oddpos"] is not None
                for la, lb in label_variants(a_odd, b_odd, composite=(n_a + n_b <= 2)):
                    a_use = dict(a_d, oddpos=la)
                    b_use = dict(b_d, oddpos=lb)
                    if (st.evaluations + ctx.seed) % 7 == 0:
                        a_use["dtype"] = b_use["dtype"] = "complex128"
                    fails, (a, b, nontrivial) = pair_failures(a_use, b_use, axes_a, axes_b, st)
                    st.evaluations += 1
                    st.traces += 1
                    st.nontrivial += int(nontrivial)
                    for sig, det in fails:
                        st.violation(sig, {"kind": "pair", "a": a_use, "b": b_use, "axes_a": axes_a, "axes_b": axes_b}, det)
                    if st.evaluations == 9 and k == 0:
                        st.sample({"a": describe(a), "b": describe(b), "axes": [list(axes_a), list(axes_b)]})
    return st


def single_failures(d, st=None, max_perm_n=4):
    import autoray as ar
    import symmray as sr

    sym = d["sym"]
    x = build(d)
    g = gt_of(x)
    n = x.ndim
    fails = []
    frame_full = frame_of(x)
    nontrivial = False
    # transpose: every permutation
    if n <= max_perm_n:
        for perm in itertools.permutations(range(n)):
            ref = RG.transpose(g, perm)
            frame = tuple(frame_full[p] for p in perm)
            for name, fn in (("transpose", lambda: x.transpose(perm)), ("sr.transpose", lambda: sr.transpose(x, perm)),
                             ("autoray.transpose", lambda: ar.do("transpose", x, perm))):
                try:
                    c = fn()
                except Exception as e:
                    fails.append((f"C03/{name}/raised-{type(e).__name__}", f"{perm}: {e}"))
                    continue
                if st is not None:
                    st.transitions += 1
                for kind, det in compare(sym, c, ref, frame, x.charge, f"{name}{perm}"):
                    fails.append((f"C03/{name}/{kind}", det))
            if not exact_equal(ref.arr, g.arr.transpose(perm)):
                nontrivial = True
            # the same permutation spelled with negative axes (numpy convention; the abelian parent class and tensordot accept it):
            # the same result, or a refusal - never another array
            if n >= 2:
                for spell, pneg in (("all-negative", tuple(p - n for p in perm)), ("first-negative", (perm[0] - n,) + tuple(perm[1:]))):
                    try:
                        c = x.transpose(pneg)
                    except Exception as e:
                        if st is not None:
                            st.refuse(f"transpose[{spell}]", e)
                        continue
                    if st is not None:
                        st.transitions += 1
                    for kind, det in compare(sym, c, ref, frame, x.charge, f"transpose{pneg}"):
                        fails.append((f"C03/transpose[negative-axes]/{kind}", det))
        # default (reverse)
        try:
            c = x.transpose()
            ref = RG.transpose(g, tuple(range(n - 1, -1, -1)))
            for kind, det in compare(sym, c, ref, tuple(frame_full[::-1]), x.charge, "transpose()"):
                fails.append((f"C03/transpose-default/{kind}", det))
        except Exception as e:
            fails.append((f"C03/transpose-default/raised-{type(e).__name__}", f"{e}"))
    # einsum / trace
    keys = [index_plain_key(ix) for ix in x.indices]
    pairs_ok = {(i, j) for i in range(n) for j in range(i + 1, n) if keys[i][0] == keys[j][0] and keys[i][1] != keys[j][1]}
    for eq in einsum_eqs(n, pairs_ok):
        lhs, rhs = eq.split("->")
        ref = RG.einsum(g, eq)
        kept = [lhs.index(q) for q in rhs]
        frame = tuple(frame_full[i] for i in kept)
        for name, fn in (("einsum", lambda: x.einsum(eq)), ("autoray.einsum", lambda: ar.do("einsum", eq, x))):
            try:
                c = fn()
            except Exception as e:
                fails.append((f"C03/{name}/raised-{type(e).__name__}", f"{eq}: {e}"))
                continue
            if st is not None:
                st.transitions += 1
            for kind, det in compare(sym, c, ref, frame, x.charge, f"{name}({eq})"):
                fails.append((f"C03/{name}/{kind}", det))
    if n == 2 and (0, 1) in pairs_ok:
        ref = RG.einsum(g, "aa->").arr.item()
        for name, fn in (("trace", lambda: x.trace()), ("autoray.trace", lambda: ar.do("trace", x))):
            try:
                c = fn()
                if st is not None:
                    st.transitions += 1
                if c != ref:
                    fails.append((f"C03/{name}/value", f"{c!r} expected {ref!r} duals={x.duals}"))
            except Exception as e:
                fails.append((f"C03/{name}/raised-{type(e).__name__}", f"{e}"))
    return fails, nontrivial


def fermionic_singles(ctx, sym, n):
    if n == 1:
        for d in U.arrays(sym, 1, "core", "a", "all", "all", phases="all", ferm=True, label=3):
            yield d
        return
    for d in single_arrays(ctx, sym, n):
        stored = d["sectors"]
        odd = G.parity(sym, d["charge"]) == 1
        pmode = {2: "all", 3: "probe", 4: "probe0"}[n]
        for ph in U.phase_patterns(stored, pmode):
            yield dict(d, ferm=True, phases=ph, oddpos=(5 if odd else None))


def run_single(ctx, sym, n):
    st = Stats()
    for i, d in enumerate(fermionic_singles(ctx, sym, n)):
        if i % 5 == (ctx.seed % 5):
            d = dict(d, dtype="complex128")
        fails, nontrivial = single_failures(d, st)
        st.evaluations += 1
        st.states += 1
        st.traces += 1
        st.nontrivial += int(nontrivial)
        for sig, det in fails:
            st.violation(sig, {"kind": "single", "x": d}, det)
        if i == 13:
            st.sample({"single": describe(build(d))})
    return st


def replay(ctx, case):
    if case["kind"] == "pair":
        return pair_failures(case["a"], case["b"], tuple(case["axes_a"]), tuple(case["axes_b"]))[0]
    return single_failures(case["x"])[0]
