"""C15 - results do not depend on call history, caches or threads.

(a) E-hist: explicit-state search over call histories of the process-wide
caches on a family of near-identical arrays, under several cache settings;
(b) the default-mode context manager, every nesting / outcome;
(c) E-sched: preemption-bounded exploration of real thread interleavings."""

import collections
import functools
import itertools
import os
import subprocess
import sys

import numpy as np

from .. import groups as G
from .. import sched as SC
from ..arrays import exact_equal, index_key, oddpos_key, snapshot
from ..runner import REPO, Stats, find_lru_caches, reset_library_state

PROP = "C15"
BUDGET = {"quick": 420, "thorough": 3600}
META = {
    "rule": "(a) family = base 3-index array (Z2 / U1; abelian and fermionic) and members differing in exactly one attribute (one direction, one block size, one charge label, one missing sector, "
    "block order, total charge, symmetry object with equal labels, a pre-fused index with different sub-structure but equal table, a twice-fused leg differing only in its innermost legs, the mere name of a charge over the box [-2,2], dtype); events = fuse x3 groupings, fused tensordot, reshape, "
    "fuse + unfuse down to the innermost legs, svd_truncated x2 limits on every member; breadth-first over event histories from the cold state, deduplicated by system state (ordered fuse-cache keys, argument sets seen by every "
    "lru_cache, hash-memo flags of the shared index objects, default mode); settings maxsize in {0,1,2,8192} x maxsectors in {1,512} and the environment-variable route; (b) every initial mode x nesting <=2 x "
    "outcome; (c) 2 threads on shared operands, scheduling point = every line of library code (every opcode inside the cache / hash-memo functions), preemption bound 0 and 1 complete; bound 2 over the critical functions and a three-thread scenario on an evicting cache (bound 1, line granularity) in thorough. "
    "non-trivial = history whose last event finds a warm / evicting cache, or schedule with a preemption inside library code",
    "bounds": {"quick": "histories depth 2 all settings + depth 3 for maxsize 1 and 2; preemption bound 1", "thorough": "depth 3 all settings; bound 2 on critical functions"},
    "assumptions": [
        "threads are serialised by the baton (sequential consistency at line / opcode granularity); parallel execution inside numpy with the GIL released and free-threaded builds are not modelled",
        "per execution the fuse cache and every lru_cache are cleared and operands are rebuilt with fresh index objects, so a schedule prefix replays deterministically (a divergence is a harness error)",
        "states with equal recorded cache contents are merged: the recorded contents are the whole mutable process state found by the module scan",
    ],
}

# --------------------------------------------------------------------------- #
# (a) histories


def make_family(sym, ferm, seedtag=1):
    """fresh objects every call (hash memos cold); returns dict name -> array"""
    import symmray as sr

    klass = sr.FermionicArray if ferm else sr.AbelianArray
    e = G.identity(sym)
    c1 = [c for c in G.ALPHABET[sym] if c != e][0]
    c2 = [c for c in G.ALPHABET[sym] if c not in (e, c1)]
    c2 = c2[0] if c2 else None

    def tagged(indices, charge, drop=None, order="sorted", dtype="float64", symmetry=sym, start=1):
        ctr = [start]

        def fill(shape):
            n = int(np.prod(shape, dtype=int))
            a = np.arange(ctr[0], ctr[0] + n).reshape(shape).astype(dtype)
            ctr[0] += n
            return a

        kw = dict(oddpos=3) if ferm else {}
        x = klass.from_fill_fn(fill, indices, charge=charge, symmetry=symmetry, **kw)
        secs = sorted(x.blocks)
        if drop is not None and len(secs) > 1:
            del x.blocks[secs[drop % len(secs)]]
        if order == "reversed":
            x._blocks = dict(reversed(list(x.blocks.items())))
        return x

    i = sr.BlockIndex({e: 1, c1: 2}, dual=False)
    j = sr.BlockIndex({e: 2, c1: 1}, dual=True)
    k = sr.BlockIndex({e: 1, c1: 1}, dual=False)
    fam = collections.OrderedDict()
    fam["base"] = tagged((i, j, k), e)
    fam["dual-flipped"] = tagged((i, j.conj(), k), e)  # conj() of the SAME (possibly already hashed) index object
    fam["size"] = tagged((sr.BlockIndex({e: 1, c1: 3}, dual=False), j, k), e)
    if c2 is not None:
        fam["charge-label"] = tagged((sr.BlockIndex({e: 1, c2: 2}, dual=False), j, k), e)
    if sym == "U1":
        # arrays that are identical up to the NAME of one charge: a leg carrying the single charge v, total charge v
        # (the sectors correspond one to one); v runs over the box [-2, 2]
        for v in (-2, -1, 1, 2):
            fam[f"single-label({v})"] = tagged((sr.BlockIndex({v: 2}, dual=False), j, k), v)
    fam["missing"] = tagged((i, j, k), e, drop=1)
    fam["order"] = tagged((i, j, k), e, order="reversed")
    fam["total-charge"] = tagged((i, j, k), c1)
    other = {"Z2": "U1", "U1": "Z2"}.get(sym)
    if other and not ferm:
        fam["symmetry"] = tagged((sr.BlockIndex({0: 1, 1: 2}, dual=False), sr.BlockIndex({0: 2, 1: 1}, dual=True), sr.BlockIndex({0: 1, 1: 1}, dual=False)), 0, symmetry=other)
    fam["dtype"] = tagged((i, j, k), e, dtype="complex128")
    # pre-fused members: equal charge table, different sub-index structure
    p1 = tagged((sr.BlockIndex({e: 1}, dual=False), sr.BlockIndex({e: 1, c1: 2}, dual=False), j, k), e).fuse((0, 1))
    p2 = tagged((sr.BlockIndex({e: 1, c1: 2}, dual=False), sr.BlockIndex({e: 1}, dual=False), j, k), e).fuse((0, 1))
    fam["prefused-a"] = p1
    fam["prefused-b"] = p2
    # members with a leg fused TWICE that differ only in the innermost legs: block sizes swapped (all products, hence
    # every outer table and extent, agree) and - where the group makes the fused charges independent of it - one inner direction
    def twice(sa, sb, dual_b=False):
        a = sr.BlockIndex({e: sa, c1: sa}, dual=False)
        b = sr.BlockIndex({e: sb, c1: sb}, dual=dual_b)
        c = sr.BlockIndex({e: 1}, dual=False)
        return tagged((a, b, c, j, k), e).fuse((0, 1)).fuse((0, 1))

    fam["fused-twice-a"] = twice(1, 2)
    fam["fused-twice-b"] = twice(2, 1)
    if sym in ("Z2", "Z2Z2"):
        fam["fused-twice-c"] = twice(1, 2, True)
    return fam


def _unfuse_fully(y):
    """down to the innermost legs (pre-fused members carry nested sub-index structure)"""
    while any(ix.subinfo is not None for ix in y.indices):
        y = y.unfuse_all()
    return y


def event_list(fam):
    """(name, thunk) for every event on every member"""
    import symmray as sr

    evs = []
    for nm, x in fam.items():
        n = x.ndim
        evs.append((f"{nm}:fuse((0,1),(2,))", lambda x=x: x.fuse((0, 1), (2,))))
        evs.append((f"{nm}:fuse((0,2))", lambda x=x: x.fuse((0, 2))))
        evs.append((f"{nm}:fuse((2,1,0))", lambda x=x: x.fuse((2, 1, 0))))
        evs.append((f"{nm}:tensordot-fused", lambda x=x: sr.tensordot(x, x.conj(), ((0, 1), (0, 1)), mode="fused")))
        evs.append((f"{nm}:reshape", lambda x=x: x.reshape((x.shape[0] * x.shape[1], x.shape[2]))))
        evs.append((f"{nm}:fuse-unfuse_all", lambda x=x: _unfuse_fully(x.fuse((1, 0), (2,)))))
        evs.append((f"{nm}:svd_truncated(1)", lambda x=x: tuple(o for o in sr.linalg.svd_truncated(x.fuse((0, 1), (2,)), max_bond=1, cutoff=0.0) if o is not None)))
        evs.append((f"{nm}:svd_truncated(2)", lambda x=x: tuple(o for o in sr.linalg.svd_truncated(x.fuse((0, 1), (2,)), max_bond=2, cutoff=0.0) if o is not None)))
    return evs


def result_key(r):
    """exact, order-insensitive canonical form of a result"""
    import symmray as sr

    if isinstance(r, tuple):
        return tuple(result_key(o) for o in r)
    if isinstance(r, sr.AbelianArray):
        return ("arr", type(r).__name__, r.charge, tuple(index_key(i) for i in r.indices),
                tuple(sorted((s, np.asarray(b).tobytes(), str(np.asarray(b).dtype), np.shape(b)) for s, b in r.blocks.items())),
                tuple(sorted(r.phases.items())) if r.fermionic else None, oddpos_key(r) if r.fermionic else None)
    if isinstance(r, sr.BlockVector):
        return ("bv", tuple(sorted((k, np.asarray(v).tobytes()) for k, v in r.blocks.items())))
    return ("py", repr(r))


class Recorder:
    """wraps every lru_cache'd callable of the library to record the argument tuples it has seen"""

    def __init__(self):
        self.seen = collections.defaultdict(set)
        self.installed = []

    def install(self):
        caches, mods = find_lru_caches()
        for _, (fn, names) in caches.items():
            tag = names[0]

            def make(fn=fn, tag=tag):
                @functools.wraps(fn)
                def w(*a, **k):
                    try:
                        self.seen[tag].add(repr((a, sorted(k.items()))))
                    except Exception:
                        pass
                    return fn(*a, **k)

                w.cache_clear = fn.cache_clear
                w.cache_info = fn.cache_info
                return w

            w = make()
            for full in names:
                mname, attr = full.rsplit(".", 1)
                self.installed.append((sys.modules[mname], attr, fn))
                setattr(sys.modules[mname], attr, w)

    def uninstall(self):
        for mod, attr, fn in self.installed:
            setattr(mod, attr, fn)
        self.installed = []

    def clear(self):
        self.seen.clear()


def system_state(rec, fam):
    from symmray import abelian_core as ac

    memo = tuple(tuple(getattr(ix, "_hashkey", None) is not None for ix in x.indices) for x in fam.values())
    return (tuple(ac._fuseinfos.keys()), tuple(sorted((k, tuple(sorted(v))) for k, v in rec.seen.items())), memo, ac._DEFAULT_TENSORDOT_MODE)


CORE_MEMBERS = ("base", "dual-flipped", "missing", "prefused-a", "prefused-b", "fused-twice-a", "fused-twice-b")
CORE_EVENTS = ("fuse((0,1),(2,))", "tensordot-fused", "reshape", "svd_truncated(1)")


def core_names(names):
    return [nm for nm in names if nm.split(":")[0] in CORE_MEMBERS and nm.split(":")[1] in CORE_EVENTS]


def history_failures(sym, ferm, maxsize, maxsectors, depth, first_events, st=None, rec=None, core=False):
    """BFS over histories that start with one of ``first_events`` (indices)"""
    from symmray import abelian_core as ac

    fails = []
    own = rec is None
    if own:
        rec = Recorder()
        rec.install()
    try:
        # references: cold, cache disabled
        reset_library_state(maxsize=0, maxsectors=512)
        fam = make_family(sym, ferm)
        names = [nm for nm, _ in event_list(fam)]
        refs = {}
        for nm, th in event_list(fam):
            reset_library_state(maxsize=0, maxsectors=512)
            refs[nm] = result_key(th())

        def run_history(hist):
            reset_library_state(maxsize=maxsize, maxsectors=maxsectors)
            rec.clear()
            fam = make_family(sym, ferm)
            evs = dict(event_list(fam))
            out = None
            for nm in hist:
                out = evs[nm]()
            return out, system_state(rec, fam)

        if core:
            names = core_names(names)
        seen = set()
        frontier = [(names[i],) for i in first_events if i < len(names)]
        nontrivial = 0
        for d in range(1, depth + 1):
            new = []
            for hist in frontier:
                try:
                    out, state = run_history(hist)
                except Exception as e:
                    fails.append((f"C15/history/raised-{type(e).__name__}", f"maxsize={maxsize} maxsectors={maxsectors} history={hist}: {e}"))
                    continue
                if st is not None:
                    st.transitions += len(hist)
                    st.evaluations += 1
                    st.traces += 1
                if result_key(out) != refs[hist[-1]]:
                    fails.append(("C15/history/result-depends-on-history", f"maxsize={maxsize} maxsectors={maxsectors}: after {hist[:-1]} the event {hist[-1]} returns a different result than from a cold, cache-less state"))
                if d > 1:
                    nontrivial += 1
                if state in seen:
                    continue
                seen.add(state)
                if st is not None:
                    st.add_state((sym, ferm, maxsize, maxsectors, state))
                if d < depth:
                    for nm in names:
                        new.append(hist + (nm,))
            frontier = new
        return fails, nontrivial
    finally:
        if own:
            rec.uninstall()
        reset_library_state(maxsize=8192, maxsectors=512)


def env_route_failures(maxsize):
    """fresh interpreter with SYMMRAY_FUSE_CACHE_MAXSIZE set: depth-2 histories over a few events"""
    code = r"""
import sys, json
sys.path.insert(0, %r); sys.path.insert(0, %r)
import io, contextlib
buf = io.StringIO()
with contextlib.redirect_stdout(buf):
    import symmray
from symmray import abelian_core as ac
from mc.checks import c15
assert ac._fuseinfo_cache_maxsize == %d, ac._fuseinfo_cache_maxsize
fails, nt = c15.history_failures("U1", False, %d, 512, 2, list(range(0, 40, 3)))
print(json.dumps([list(f) for f in fails]))
""" % (REPO, os.path.dirname(os.path.dirname(os.path.dirname(os.path.abspath(__file__)))), maxsize, maxsize)
    env = dict(os.environ, SYMMRAY_FUSE_CACHE_MAXSIZE=str(maxsize), PYTHONHASHSEED="0")
    p = subprocess.run([sys.executable, "-B", "-c", code], env=env, capture_output=True, text=True, timeout=600)
    if p.returncode != 0:
        return [("C15/env-route/subprocess-failed", p.stderr[-600:])]
    import json

    return [tuple(f) for f in json.loads(p.stdout.strip().splitlines()[-1])]


# --------------------------------------------------------------------------- #
# (b) default-mode context manager


class Boom(Exception):
    pass


def mode_failures(st=None):
    import symmray as sr
    from symmray import abelian_core as ac

    fails = []
    modes = ("auto", "fused", "blockwise")
    for m0 in modes:
        for m1 in modes:
            for m2 in modes + (None,):
                for raise_at in (None, "inner", "outer"):
                    sr.set_default_tensordot_mode(m0)
                    if sr.get_default_tensordot_mode() != m0:
                        fails.append(("C15/mode/set-get", f"{m0}"))
                    seen = []
                    caught = None
                    try:
                        with sr.default_tensordot_mode(m1):
                            seen.append(sr.get_default_tensordot_mode())
                            if m2 is not None:
                                try:
                                    with sr.default_tensordot_mode(m2):
                                        seen.append(sr.get_default_tensordot_mode())
                                        if raise_at == "inner":
                                            raise Boom("inner")
                                finally:
                                    seen.append(sr.get_default_tensordot_mode())
                            if raise_at == "outer":
                                raise Boom("outer")
                    except Boom as e:
                        caught = e
                    if st is not None:
                        st.evaluations += 1
                        st.transitions += 3
                        st.traces += 1
                    after = sr.get_default_tensordot_mode()
                    want_seen = [m1] + ([m2, m1] if m2 is not None else [])
                    if seen != want_seen:
                        fails.append(("C15/mode/inside", f"initial {m0}, with {m1} / {m2}: saw {seen} expected {want_seen}"))
                    if after != m0:
                        fails.append(("C15/mode/not-restored", f"initial {m0}, with {m1} / {m2}, raise at {raise_at}: mode after exit is {after}"))
                    if (raise_at == "inner" and m2 is None):
                        continue
                    if (raise_at is None) != (caught is None) and not (raise_at == "inner" and m2 is None):
                        fails.append(("C15/mode/exception", f"raise_at={raise_at} caught={caught!r}"))
                    elif caught is not None and str(caught) != raise_at:
                        fails.append(("C15/mode/exception-changed", f"{caught!r}"))
        sr.set_default_tensordot_mode(None)
        if sr.get_default_tensordot_mode() != m0:
            fails.append(("C15/mode/set-none-not-noop", f"{m0}"))
    sr.set_default_tensordot_mode("auto")
    ac._DEFAULT_TENSORDOT_MODE = "auto"
    return fails


# --------------------------------------------------------------------------- #
# (c) thread interleavings

CRITICAL = ("cached_fuse_block_info", "hashkey", "set_default_tensordot_mode", "default_tensordot_mode")


def scenario(name):
    """returns make_bodies() -> list of thunks (fresh cold state and operands every call), and the expected results"""
    import symmray as sr

    def fresh(maxsize):
        reset_library_state(maxsize=maxsize, maxsectors=512)

    def build(ferm=False, sym="U1"):
        fam = make_family(sym, ferm)
        return fam

    if name == "fuse||fuse same key":
        def make(maxsize=8192):
            fresh(maxsize)
            x = build()["base"]
            return [lambda: x.fuse((0, 2), (1,)), lambda: x.fuse((0, 2), (1,))], [x]
    elif name == "fuse||fuse evicting":
        def make(maxsize=1):
            fresh(maxsize)
            fam = build()
            x, y = fam["base"], fam["dual-flipped"]
            return [lambda: (x.fuse((0, 1), (2,)), x.fuse((0, 1), (2,))), lambda: (y.fuse((0, 1), (2,)), y.fuse((0, 1), (2,)))], [x, y]
    elif name == "fuse||fuse||fuse evicting (3 threads)":
        def make(maxsize=1):
            fresh(maxsize)
            fam = build()
            x, y, z = fam["base"], fam["dual-flipped"], fam["size"]
            return [lambda: (x.fuse((0, 1), (2,)), x.fuse((0, 1), (2,))), lambda: (y.fuse((0, 1), (2,)), y.fuse((0, 1), (2,))),
                    lambda: (z.fuse((0, 1), (2,)), z.fuse((0, 1), (2,)))], [x, y, z]
    elif name == "tensordot||tensordot fused":
        def make(maxsize=8192):
            fresh(maxsize)
            fam = build()
            x = fam["base"]
            xc = x.conj()
            return [lambda: sr.tensordot(x, xc, ((0, 1), (0, 1)), mode="fused"), lambda: sr.tensordot(xc, x, ((2, 1), (2, 1)), mode="fused")], [x, xc]
    elif name == "fuse||reshape":
        def make(maxsize=2):
            fresh(maxsize)
            x = build()["missing"]
            return [lambda: x.fuse((0, 1), (2,)), lambda: x.reshape((x.shape[0] * x.shape[1], x.shape[2]))], [x]
    elif name == "svd_truncated||fuse":
        def make(maxsize=8192):
            fresh(maxsize)
            fam = build()
            x = fam["base"]
            m = x.fuse((0, 1), (2,))
            reset_library_state(maxsize=maxsize, maxsectors=512)
            return [lambda: tuple(o for o in sr.linalg.svd_truncated(m, max_bond=2, cutoff=0.0) if o is not None), lambda: x.fuse((0, 1), (2,))], [x, m]
    elif name == "conj||transpose (fermionic, lazy signs)":
        def make(maxsize=8192):
            fresh(maxsize)
            x = build(ferm=True, sym="Z2")["total-charge"].phase_flip(0, 2)
            return [lambda: x.conj().fuse((0, 1)), lambda: x.transpose((2, 0, 1)).phase_sync()], [x]
    elif name == "fermionic tensordot||fuse":
        def make(maxsize=1):
            fresh(maxsize)
            fam = build(ferm=True, sym="Z2")
            x = fam["total-charge"]
            xc = x.conj()
            return [lambda: sr.tensordot(xc, x, 3), lambda: x.fuse((2, 0), (1,))], [x, xc]
    elif name == "fuse||fuse different arrays, same directions":
        def make(maxsize=8192):
            fresh(maxsize)
            fam = build()
            x, y = fam["missing"], fam["size"]
            return [lambda: x.fuse((0, 1), (2,)), lambda: y.fuse((0, 1), (2,))], [x, y]
    elif name == "tensordot||tensordot different arrays, same directions":
        def make(maxsize=0):
            fresh(maxsize)
            fam = build()
            x, y = fam["base"], fam["size"]
            xc, yc = x.conj(), y.conj()
            return [lambda: sr.tensordot(x, xc, ((0, 1), (0, 1)), mode="fused"), lambda: sr.tensordot(y, yc, ((0, 1), (0, 1)), mode="fused")], [x, y, xc, yc]
    elif name == "eigh||tensordot (fermionic, lazy signs)":
        def make(maxsize=8192):
            fresh(maxsize)
            e = G.identity("Z2")
            i = sr.BlockIndex({0: 2, 1: 2}, dual=False)
            blocks = {(0, 0): np.array([[2.0, 1.0], [1.0, 3.0]]), (1, 1): np.array([[1.0, 0.5], [0.5, 4.0]])}
            h = sr.FermionicArray(indices=(i, i.conj()), charge=e, blocks=blocks, symmetry="Z2")
            h = h.phase_sector((1, 1)).phase_sector((0, 0)).phase_sector((0, 0)).phase_sector((1, 1)).phase_flip(0)  # pending sign on the odd sector
            v = sr.FermionicArray(indices=(i,), charge=1, blocks={(1,): np.array([1.0, 2.0])}, symmetry="Z2", oddpos=3)
            return [lambda: sr.linalg.eigh(h)[0], lambda: sr.tensordot(h, v, 1)], [h, v]
    else:
        raise KeyError(name)
    return make


SCENARIOS = [
    "fuse||fuse same key",
    "fuse||fuse evicting",
    "tensordot||tensordot fused",
    "fuse||reshape",
    "svd_truncated||fuse",
    "conj||transpose (fermionic, lazy signs)",
    "fermionic tensordot||fuse",
    "eigh||tensordot (fermionic, lazy signs)",
    "fuse||fuse different arrays, same directions",
    "tensordot||tensordot different arrays, same directions",
]


def sched_failures(name, bound, part, st=None, opcode=True, max_exec=None, slice_=(0, 1)):
    import symmray as sr

    make = scenario(name)
    prefix = os.path.dirname(os.path.realpath(sr.__file__)) + os.sep
    # sequential references
    bodies, ops = make()
    ref = [result_key(b()) for b in bodies]
    bodies, ops = make()
    ref2 = [result_key(b()) for b in reversed(bodies)][::-1]
    fails = []
    if ref != ref2:
        return [("C15/threads/sequential-order-dependence", f"{name}: running the two bodies in the other order changes a result")], None
    holder = {}

    def make_bodies():
        bodies, ops = make()
        holder["ops"] = [(o, snapshot(o)) for o in ops]
        from symmray import abelian_core as ac

        holder["c0"] = (ac._fi_hit, ac._fi_missed)
        return bodies

    def cache_note():
        from symmray import abelian_core as ac

        return f"|hit={ac._fi_hit - holder['c0'][0]},miss={ac._fi_missed - holder['c0'][1]},cached={len(ac._fuseinfos)}"

    def check(res, errs):
        return check0(res, errs) + cache_note()

    def check0(res, errs):
        if any(e is not None for e in errs):
            return "exception:" + ",".join(f"{type(e).__name__}:{str(e)[:60]}" for e in errs if e is not None)
        if [result_key(r) for r in res] != ref:
            return "wrong-result"
        for o, snap in holder["ops"]:
            if snapshot(o) != snap:
                return "operand-modified"
        return "ok"

    # the very first opcode-traced execution in a process takes a different number of events (interpreter warm-up): discard one
    SC.replay(make_bodies, prefix, [], CRITICAL if opcode else ())
    # determinism of replay: one recorded schedule twice
    if True:
        r1 = SC.replay(make_bodies, prefix, [0] * 5 + [1], CRITICAL if opcode else ())
        k1 = ([result_key(r) for r in r1[0]], [t[2] for t in r1[2]])
        r2 = SC.replay(make_bodies, prefix, [0] * 5 + [1], CRITICAL if opcode else ())
        k2 = ([result_key(r) for r in r2[0]], [t[2] for t in r2[2]])
        if k1 != k2:
            return [("C15/threads/harness-replay-not-deterministic", name)], None
    out = SC.explore(make_bodies, prefix, bound, check, CRITICAL if opcode else (), part=part, max_exec=max_exec, slice_=slice_)
    if st is not None:
        st.evaluations += out["executions"]
        st.traces += out["executions"]
        st.transitions += out["executions"] * out["points"]
        st.outcomes.update({f"{name}: {k}": v for k, v in out["outcomes"].items()})
        st.counters["schedule_points_max"] = max(st.counters["schedule_points_max"], out["points"])
    for key, choices, where in out["violations"]:
        kind = key.split("|")[0].split(":")[0]
        fails.append((f"C15/threads/{kind}", f"{name}: {key} under schedule with deviations at {[i for i, c in enumerate(choices) if c]} ({where})"))
    reset_library_state(maxsize=8192, maxsectors=512)
    return fails, out


def pin_to_one_cpu():
    """the baton scheduler never runs two threads at once; keeping both on one CPU avoids cross-CPU wake-ups
    (orders of magnitude slower under virtualisation) - purely a performance measure"""
    import multiprocessing as mp

    try:
        cpus = sorted(os.sched_getaffinity(0))
        if len(cpus) > 1:
            ident = mp.current_process()._identity
            k = (ident[0] - 1) if ident else 0
            os.sched_setaffinity(0, {cpus[k % len(cpus)]})
    except Exception:
        pass


def groups(ctx):
    out = []
    settings = [(ms, mx) for ms in (0, 1, 2, 8192) for mx in (1, 512)]
    for sym, ferm in (("U1", False), ("Z2", True)):
        nev = 8 * (11 if (sym == "U1" and not ferm) else 10)
        for (ms, mx) in settings:
            # depth 2 over the full event alphabet; depth 3 (4 in thorough) over the core alphabet (5 members x 4 events)
            for k in range(2 if not ctx.thorough else 8):
                out.append(("hist", sym, ferm, ms, mx, 3 if ctx.thorough else 2, k, 2 if not ctx.thorough else 8, False))
            for k in range(4):
                out.append(("hist", sym, ferm, ms, mx, 4 if ctx.thorough else 3, k, 4, True))
    out.append(("env", 0))
    out.append(("env", 1))
    out.append(("mode",))
    nparts = 16
    for name in SCENARIOS:
        for k in range(nparts):
            out.append(("sched", name, 1, k, nparts))
    if ctx.thorough:
        for name in SCENARIOS[:3]:
            for k in range(16):
                out.append(("sched2", name, 2, k, 16))
        # three threads on an evicting cache, preemption bound 1 (execution cap per partition reported)
        for k in range(16):
            out.append(("sched3", "fuse||fuse||fuse evicting (3 threads)", 1, k, 16))
        # thorough: the schedule explorations first, then the (much larger) history search takes what is left of the budget
        out = [g for g in out if g[0] != "hist"] + [g for g in out if g[0] == "hist"]
    return out


def run_group(ctx, group):
    st = Stats()
    kind = group[0]
    if kind == "hist":
        _, sym, ferm, ms, mx, depth, k, nch, core = group
        reset_library_state()
        nev = len(event_list(make_family(sym, ferm)))
        first = [i for i in range(nev) if i % nch == k]
        fails, nt = history_failures(sym, ferm, ms, mx, depth, first, st, core=core)
        st.nontrivial += nt
        for sig, det in fails:
            st.violation(sig, {"kind": "hist", "sym": sym, "ferm": ferm, "maxsize": ms, "maxsectors": mx, "depth": depth, "first": first, "core": core}, det)
        if k == 0:
            st.sample({"family": list(make_family(sym, ferm)), "events_per_member": 8, "setting": [ms, mx], "depth": depth})
    elif kind == "env":
        for sig, det in env_route_failures(group[1]):
            st.violation(sig, {"kind": "env", "maxsize": group[1]}, det)
        st.evaluations += 1
        st.states += 1
        st.transitions += 1
    elif kind == "mode":
        for sig, det in mode_failures(st):
            st.violation(sig, {"kind": "mode"}, det)
        st.states += 9
    else:
        _, name, bound, k, nparts = group
        pin_to_one_cpu()
        heavy = "tensordot" in name
        sl = (ctx.seed % 2, 2) if (heavy and not ctx.thorough) else (0, 1)
        if sl[1] > 1:
            st.counters["capped"] += 1
            st.notes.append(f"quick: {name}: half of the preemption points (seed-tiled), line granularity")
        res = sched_failures(name, bound, (k, nparts), st, opcode=(kind == "sched" and not (heavy and not ctx.thorough)), max_exec=(None if kind == "sched" else 4000), slice_=sl)
        fails, out = res
        if out is not None:
            st.nontrivial += out["executions"]
            st.states += out["executions"]
            if kind in ("sched2", "sched3") and out["executions"] >= 4000:
                st.counters["capped"] += 1
                st.notes.append(f"{kind}: execution cap 4000 per partition reached")
        for sig, det in fails:
            st.violation(sig, {"kind": "sched", "name": name, "bound": bound}, det)
        if k == 0 and out is not None:
            st.sample({"scenario": name, "preemption_bound": bound, "points_per_execution": out["points"]})
    return st


def replay(ctx, case):
    if case["kind"] == "hist":
        return history_failures(case["sym"], case["ferm"], case["maxsize"], case["maxsectors"], case["depth"], case["first"], core=case.get("core", False))[0]
    if case["kind"] == "env":
        return env_route_failures(case["maxsize"])
    if case["kind"] == "mode":
        return mode_failures()
    return sched_failures(case["name"], case["bound"], (0, 1))[0]
