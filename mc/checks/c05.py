"""C05 - fusing is an exact, invertible re-indexing described by the fused index.

E-enum: every array of the bounded universe x every choice of disjoint ordered
axis groups x both strategies.  Oracle R-layout: the expected fused blocks are
rebuilt by the harness from the *fused index's own* sub-index table; the table
itself is audited (fused charge = signed combination, extent = product of
sub-sizes, direction of the first axis, sub-indices = the originals)."""

import itertools

import numpy as np

from .. import groups as G
from .. import ref_graded as RG
from .. import universe as U
from ..arrays import oddpos_key, build, describe, embed, exact_equal, frame_of, gt_of, index_key, sym_name
from ..runner import Stats, reset_library_state

PROP = "C05"
BUDGET = {"quick": 400, "thorough": 3600}
META = {
    "rule": "arrays (abelian and fermionic; n<=3 complete menus, n=4 reduced) x every sequence of disjoint non-empty ordered axis groups "
    "(1/6/39 choices for n=1,2,3; <=2 groups for n=4) x strategies insert / concat x fuse cache on / off, plus a second (nested) fuse of every "
    "depth-1 result; non-trivial = a fused charge receives >=2 sub-sectors or a sub-sector of a stored fused charge is missing",
    "bounds": {"quick": "n<=2 complete (menu core, all sparsity); n=3 (menu m3) half, n=4 1/12 of the groupings per array, nested: one of three first groupings per seed over all arrays (contiguous blocks per worker, warm cache shared by neighbouring arrays)", "thorough": "n<=3 menu core; n=4 complete for m2; nested complete for n=3"},
    "assumptions": [
        "distinct integer tags: equality of blocks is equality of element positions",
        "for fermionic arrays positions are compared on magnitudes; signs are decided by the round trip against the R-graded transpose",
        "the fermionic fuse exposes no strategy argument: concat is exercised for abelian arrays only",
    ],
}


def all_groupings(n, maxgroups=None):
    axes = list(range(n))
    out = []
    for r in range(1, n + 1):
        for sub in itertools.permutations(axes, r):
            for ng in range(1, (maxgroups or r) + 1):
                if ng > r:
                    break
                for cuts in itertools.combinations(range(1, r), ng - 1):
                    b = [0, *cuts, r]
                    out.append(tuple(tuple(sub[b[i] : b[i + 1]]) for i in range(ng)))
    return out


def expected_perm(n, groups):
    pos = min(min(g) for g in groups)
    grouped = {ax for g in groups for ax in g}
    before = [ax for ax in range(pos) if ax not in grouped]
    after = [ax for ax in range(pos, n) if ax not in grouped]
    perm = tuple(before + [ax for g in groups for ax in g] + after)
    slots = [("ax", ax) for ax in before] + [("g", g) for g in groups] + [("ax", ax) for ax in after]
    return perm, slots


def audit_fused_index(sym, x, ix, g):
    """the fused index's own table must describe the group g of x"""
    errs = []
    gdual = x.indices[g[0]].dual
    if ix.dual != gdual:
        errs.append(("group-direction", f"fused dual {ix.dual} but first axis of {g} is {gdual}"))
    si = ix.subinfo
    if si is None:
        return errs + [("no-subinfo", f"group {g}")]
    if tuple(index_key(s) for s in si.indices) != tuple(index_key(x.indices[ax]) for ax in g):
        errs.append(("subindices", f"group {g}: sub-indices are not the original indices in group order"))
    if set(si.extents) != set(ix.chargemap):
        errs.append(("extent-keys", f"{set(si.extents)} vs {set(ix.chargemap)}"))
    for c, ext in si.extents.items():
        if sum(ext.values()) != ix.chargemap.get(c):
            errs.append(("extent-sum", f"charge {c}"))
        for ss, d in ext.items():
            if len(ss) != len(g):
                errs.append(("subsector-length", f"{ss}"))
                continue
            try:
                sizes = [x.indices[ax].chargemap[sc] for ax, sc in zip(g, ss)]
            except KeyError:
                errs.append(("subsector-charge", f"{ss}"))
                continue
            if d != int(np.prod(sizes, dtype=int)):
                errs.append(("extent-size", f"{ss}: {d} vs prod{sizes}"))
            fc = G.combine(sym, *[G.signed(sym, sc, x.indices[ax].dual != gdual) for ax, sc in zip(g, ss)])
            if fc != c:
                errs.append(("fused-charge", f"sub-sector {ss} filed under {c}, signed combination is {fc}"))
    return errs


def expected_fused_blocks(sym, x, xf, groups, absval=False):
    """rebuild the fused blocks from x's blocks using xf's own index tables"""
    n = x.ndim
    perm, slots = expected_perm(n, groups)
    if xf.ndim != len(slots):
        return None, [("rank", f"ndim {xf.ndim} expected {len(slots)}")]
    errs = []
    # per-slot checks of index objects
    starts = {}
    for k, (kind, what) in enumerate(slots):
        ix = xf.indices[k]
        if kind == "ax" or len(what) == 1:
            ax = what if kind == "ax" else what[0]
            if index_key(ix) != index_key(x.indices[ax]):
                errs.append(("plain-index-changed", f"new axis {k} (old {ax})"))
        else:
            for e in audit_fused_index(sym, x, ix, what):
                errs.append(e)
            if ix.subinfo is not None:
                st = {}
                for c, ext in ix.subinfo.extents.items():
                    p = 0
                    for ss, d in ext.items():
                        st[ss] = (c, p, d)
                        p += d
                starts[k] = st
    if errs:
        return None, errs
    exp = {}
    common = np.result_type(*[np.asarray(b).dtype for b in x.blocks.values()]) if x.blocks else np.float64
    for sec, blk in x.blocks.items():
        blk = np.asarray(blk)
        if absval:
            blk = np.abs(blk)
        t = blk.transpose(perm)
        new_sec = []
        new_shape = []
        sl = []
        for k, (kind, what) in enumerate(slots):
            if kind == "ax" or len(what) == 1:
                ax = what if kind == "ax" else what[0]
                new_sec.append(sec[ax])
                new_shape.append(blk.shape[ax])
                sl.append(slice(None))
            else:
                ss = tuple(sec[ax] for ax in what)
                if ss not in starts[k]:
                    return None, [("subsector-missing", f"sub-sector {ss} of a stored block is not in the fused table")]
                c, p, d = starts[k][ss]
                new_sec.append(c)
                new_shape.append(d)
                sl.append(slice(p, p + d))
        new_sec = tuple(new_sec)
        if new_sec not in exp:
            try:
                shape = tuple(xf.indices[k].chargemap[c] for k, c in enumerate(new_sec))
            except KeyError:
                return None, [("fused-charge-missing", f"{new_sec}")]
            exp[new_sec] = np.zeros(shape, dtype=(np.abs(np.zeros(1, dtype=common)).dtype if absval else common))
        try:
            exp[new_sec][tuple(sl)] = t.reshape(new_shape)
        except ValueError as e:
            return None, [("shape", f"{e}")]
    return exp, []


def compare_blocks(got, exp, absval=False):
    errs = []
    for s, e in exp.items():
        if s not in got:
            errs.append(("block-missing", f"{s}"))
            continue
        g = np.abs(got[s]) if absval else got[s]
        if not exact_equal(g, e):
            errs.append(("layout", f"block {s} differs from the layout prescribed by the fused index"))
    for s, g in got.items():
        if s not in exp and np.any(np.asarray(g) != 0):
            errs.append(("extra-nonzero", f"{s}"))
    return errs


def fuse_case_failures(d, groups, st=None, nested=None, cache=None, empty=True):
    """d: array descriptor; groups: tuple of tuples; nested: optional second grouping applied to the result"""
    from symmray import abelian_core as ac

    fails = []
    x = build(d)
    sym = d["sym"]
    if nested is not None:
        # the array under test is the result of a first fuse (already-fused axes inside groups)
        try:
            x = x.fuse(*groups)
        except Exception as e:
            return [(f"C05/fuse/raised-{type(e).__name__}", f"first fuse {groups}: {e}")], False
        groups = nested
    ferm = d["ferm"]
    n = x.ndim
    perm, slots = expected_perm(n, groups)
    results = {}
    modes = ("auto",) if ferm else ("insert", "concat")
    nontrivial = False
    saved = ac._fuseinfo_cache_maxsize
    try:
        for mode in modes:
            for cache_on in ((True, False) if (cache is None and mode != "concat") else (True if cache is None else cache,)):
                ac._fuseinfo_cache_maxsize = 8192 if cache_on else 0
                name = f"fuse[{'fermionic' if ferm else mode}]"
                try:
                    xf = x.fuse(*groups) if ferm else x.fuse(*groups, mode=mode)
                except Exception as e:
                    fails.append((f"C05/{name}/raised-{type(e).__name__}", f"groups={groups} cache={cache_on}: {e}"))
                    continue
                if st is not None:
                    st.transitions += 1
                exp, errs = expected_fused_blocks(sym, x, xf, groups, absval=ferm)
                if not errs:
                    if xf.charge != x.charge:
                        errs.append(("charge", f"{xf.charge} vs {x.charge}"))
                    if ferm and xf.phases:
                        errs.append(("pending-signs-after-fuse", f"{xf.phases}"))
                    errs += compare_blocks(xf.blocks, exp, absval=ferm)
                for kind, det in errs:
                    fails.append((f"C05/{name}/{kind}", f"groups={groups} cache={cache_on}: {det}"))
                if exp is not None and not nontrivial:
                    for k, (kind, what) in enumerate(slots):
                        if kind == "g" and len(what) > 1 and xf.indices[k].subinfo is not None:
                            for c, ext in xf.indices[k].subinfo.extents.items():
                                if len(ext) >= 2:
                                    nontrivial = True
                results[(mode, cache_on)] = xf
    finally:
        ac._fuseinfo_cache_maxsize = saved
    # strategies / cache settings must agree exactly
    keys = list(results)
    for kk in keys[1:]:
        a, b = results[keys[0]], results[kk]
        same = (
            set(a.blocks) == set(b.blocks)
            and all(exact_equal(a.blocks[s], b.blocks[s]) for s in a.blocks)
            and tuple(index_key(i) for i in a.indices) == tuple(index_key(i) for i in b.indices)
            and a.charge == b.charge
        )
        if not same:
            fails.append((f"C05/strategies-differ/{keys[0][0]}-vs-{kk[0]}", f"groups={groups} {keys[0]} vs {kk}"))
    # round trip
    if results:
        xf = results[keys[0]]
        g = gt_of(x) if ferm else None
        want = RG.transpose(g, perm).arr if ferm else embed(x).transpose(perm)
        frame = tuple(frame_of(x)[p] for p in perm)
        new_axes = [k for k, (kind, what) in enumerate(slots) if kind == "g" and len(what) > 1]
        trips = [("unfuse-new", lambda: unfuse_axes(xf, new_axes))]
        if all(ix.subinfo is None for ix in x.indices):
            # nothing was fused before: unfuse_all must undo exactly this fuse
            trips.append(("unfuse_all", lambda: xf.unfuse_all()))
        for name, fn in trips:
            try:
                xu = fn()
            except Exception as e:
                fails.append((f"C05/{name}/raised-{type(e).__name__}", f"groups={groups}: {e}"))
                continue
            if st is not None:
                st.transitions += 1
            if tuple(index_key(i) for i in xu.indices) != tuple(index_key(x.indices[p]) for p in perm):
                fails.append((f"C05/{name}/indices", f"groups={groups}: index tables not restored"))
                continue
            if xu.charge != x.charge:
                fails.append((f"C05/{name}/charge", f"groups={groups}"))
            try:
                got = embed(xu, frame, dtype=want.dtype)
            except (KeyError, ValueError) as e:
                fails.append((f"C05/{name}/frame", f"groups={groups}: {e!r}"))
                continue
            if not exact_equal(got, want):
                fails.append((f"C05/{name}/value", f"groups={groups}: original not restored"))
            if not ferm:
                # bit for bit per block, extra blocks exactly zero
                for s, blk in x.blocks.items():
                    ps = tuple(s[p] for p in perm)
                    if ps not in xu.blocks or not exact_equal(xu.blocks[ps], np.asarray(blk).transpose(perm)):
                        fails.append((f"C05/{name}/block", f"groups={groups}: block {s} not restored bit for bit"))
                        break
    # conjugating the fused array and unfusing the new axes must give the conjugated original (all nesting levels of the
    # sub-index info are conjugated); abelian only: the fermionic conj does not commute with fuse by design
    if results and not ferm and new_axes:
        xf = results[keys[0]]
        try:
            yu = unfuse_axes(xf.conj(), new_axes)
            want_keys = tuple(conj_key(index_key(x.indices[p])) for p in perm)
            if tuple(index_key(i) for i in yu.indices) != want_keys:
                fails.append(("C05/conj-unfuse/indices", f"groups={groups}: fuse -> conj -> unfuse does not give the conjugated original indices"))
            elif not exact_equal(embed(yu, frame, dtype=want.dtype), np.conj(want)) or yu.charge != G.neg(sym, x.charge):
                fails.append(("C05/conj-unfuse/value", f"groups={groups}"))
            if st is not None:
                st.transitions += 2
        except Exception as e:
            fails.append((f"C05/conj-unfuse/raised-{type(e).__name__}", f"groups={groups}: {e}"))
    # blocks of differing element type (what a + 1j * b leaves when b is sparser than a): nothing may be lost in the fused array
    if results and not ferm and n <= 3 and len(x.blocks) >= 2:
        secs = list(x.blocks)
        for rname, rec in (("real-first", lambda k, b: b if k == 0 else b + 1j * (b + 1)), ("complex-first", lambda k, b: b + 1j * (b + 1) if k == 0 else b)):
            try:
                xm = x.copy_with(blocks={sec: rec(k, np.asarray(x.blocks[sec])) for k, sec in enumerate(secs)})
                got = {}
                for mode in ("insert", "concat"):
                    xf = xm.fuse(*groups, mode=mode)
                    if st is not None:
                        st.transitions += 1
                    exp, errs = expected_fused_blocks(sym, xm, xf, groups)
                    if not errs:
                        errs = compare_blocks(xf.blocks, exp)
                    for kind, det in errs:
                        fails.append((f"C05/fuse[{mode},mixed-dtype]/{kind}", f"groups={groups} {rname}: {det}"))
                    got[mode] = xf
                a, b = got["insert"], got["concat"]
                if set(a.blocks) != set(b.blocks) or not all(exact_equal(a.blocks[s_], b.blocks[s_]) for s_ in a.blocks):
                    fails.append(("C05/strategies-differ/insert-vs-concat[mixed-dtype]", f"groups={groups} {rname}"))
            except Exception as e:
                fails.append((f"C05/fuse[mixed-dtype]/raised-{type(e).__name__}", f"groups={groups} {rname}: {e}"))
    # empty groups: ignored with expand_empty=False, a new singlet axis (identity charge) at the group's position otherwise
    if results and empty and n <= 3:
        plain = results[keys[0]]
        for kind, det in empty_group_failures(x, groups, plain, sym, ferm, st):
            fails.append((f"C05/fuse-empty-group/{kind}", f"groups={groups}: {det}"))
    # the conjugate taken AFTER the array was fused (its index objects have been through the fuse machinery) is an
    # input like any other: fusing it with the same groups must follow its own directions
    if results:
        try:
            y = x.conj()
            yf = y.fuse(*groups)
            if st is not None:
                st.transitions += 2
            exp, errs = expected_fused_blocks(sym, y, yf, groups, absval=ferm)
            if not errs:
                if yf.charge != y.charge:
                    errs.append(("charge", f"{yf.charge} vs {y.charge}"))
                errs += compare_blocks(yf.blocks, exp, absval=ferm)
            for kind, det in errs:
                fails.append((f"C05/fuse-of-conj-after-fuse/{kind}", f"groups={groups}: {det}"))
            if not errs and new_axes:
                yu = unfuse_axes(yf, new_axes)
                if tuple(index_key(i) for i in yu.indices) != tuple(index_key(y.indices[p]) for p in perm):
                    fails.append(("C05/fuse-of-conj-after-fuse/unfuse-indices", f"groups={groups}: index tables of the conjugate not restored"))
                else:
                    gy = gt_of(y) if ferm else None
                    wanty = RG.transpose(gy, perm).arr if ferm else embed(y).transpose(perm)
                    framey = tuple(frame_of(y)[p] for p in perm)
                    if not exact_equal(embed(yu, framey, dtype=wanty.dtype), wanty):
                        fails.append(("C05/fuse-of-conj-after-fuse/unfuse-value", f"groups={groups}: conjugate not restored"))
        except Exception as e:
            fails.append((f"C05/fuse-of-conj-after-fuse/raised-{type(e).__name__}", f"groups={groups}: {e}"))
    return fails, nontrivial


def _same_array(a, b, ferm):
    return (
        a.charge == b.charge
        and tuple(index_key(i) for i in a.indices) == tuple(index_key(i) for i in b.indices)
        and set(a.blocks) == set(b.blocks)
        and all(exact_equal(a.blocks[k], b.blocks[k]) for k in a.blocks)
        and (not ferm or ({k for k, v in a.phases.items() if v == -1} == {k for k, v in b.phases.items() if v == -1} and oddpos_key(a) == oddpos_key(b)))
    )


def empty_group_failures(x, groups, plain, sym, ferm, st=None):
    out = []
    e = G.identity(sym)
    g0 = min(ax for g in groups for ax in g)
    for p in range(len(groups) + 1):
        ge = groups[:p] + ((),) + groups[p:]
        try:
            r0 = x.fuse(*ge, expand_empty=False)
            r1 = x.fuse(*ge)
        except Exception as ex:
            out.append((f"raised-{type(ex).__name__}", f"empty group at position {p}: {ex}"))
            continue
        if st is not None:
            st.transitions += 2
        if not _same_array(r0, plain, ferm):
            out.append(("ignored", f"empty group at position {p} with expand_empty=False changes the result"))
        pos = g0 + p
        ok = r1.ndim == plain.ndim + 1 and r1.charge == plain.charge and len(r1.blocks) == len(plain.blocks)
        if ok:
            keys = [index_key(i) for i in r1.indices]
            # documented: the new singlet inherits its direction from the axis before it (else after it, else non-dual)
            want_dual = bool(plain.indices[pos - 1].dual) if pos > 0 else (bool(plain.indices[0].dual) if plain.ndim else False)
            ok = keys[pos] == (((e, 1),), want_dual, None) and tuple(keys[:pos] + keys[pos + 1 :]) == tuple(index_key(i) for i in plain.indices)
        if ok:
            for sec, blk in plain.blocks.items():
                s1 = sec[:pos] + (e,) + sec[pos:]
                if s1 not in r1.blocks or not exact_equal(r1.blocks[s1], np.expand_dims(np.asarray(blk), pos)):
                    ok = False
                    break
        if ok and ferm:
            ok = not any(v == -1 for v in r1.phases.values()) and oddpos_key(r1) == oddpos_key(plain)
        if not ok:
            out.append(("expanded", f"empty group at position {p}: expected the plain result with a singlet axis (identity charge) at {pos}"))
    return out


def conj_key(k):
    cm, dual, sub = k
    if sub is not None:
        sub = (tuple(conj_key(s) for s in sub[0]), sub[1])
    return (cm, not dual, sub)


def unfuse_axes(xf, axes):
    x = xf
    for ax in sorted(axes, reverse=True):
        x = x.unfuse(ax)
    return x


def array_stream(ctx, sym, n, ferm):
    if n <= 2:
        menu, sp, charges = "core", "all", "all"
    elif n == 3:
        menu, sp, charges = ("core" if ctx.thorough else "m3"), "le1", "all"
    else:
        menu, sp, charges = "m2", "probe", "two"
    kw = dict(ferm=True, label=7, phases="probe0") if ferm else {}
    orders = ("sorted", "reversed") if n <= 2 else ("sorted",)
    return U.arrays(sym, n, menu, "b" if n <= 2 else "a", charges, sp, orders=orders, **kw)


def groups(ctx):
    out = []
    for sym in G.SYMS:
        for ferm in (False, True):
            for n in (1, 2, 3, 4):
                nch = {1: 1, 2: 1, 3: 12 if not ctx.thorough else 32, 4: 8 if not ctx.thorough else 32}[n]
                for k in range(nch):
                    out.append(("fuse", sym, ferm, n, k, nch))
            nch = 4 if not ctx.thorough else 16
            for k in range(nch):
                out.append(("nested", sym, ferm, k, nch))
    return out


def run_group(ctx, group):
    kind, sym, ferm = group[:3]
    st = Stats()
    reset_library_state()
    if kind == "fuse":
        n, k, nch = group[3:]
        gl = all_groupings(n, maxgroups=None if n <= 3 else 2)
        # n=4 in quick: residue slice of the groupings
        slice_mod = 1 if (ctx.thorough or n <= 2) else (2 if n == 3 else 12)
        for i, d in enumerate(array_stream(ctx, sym, n, ferm)):
            if i % nch != k:
                continue
            st.states += 1
            for gi, grp in enumerate(gl):
                if slice_mod > 1 and (gi + i) % slice_mod != ctx.seed % slice_mod:
                    continue
                fails, nontrivial = fuse_case_failures(d, grp, st, empty=(ctx.thorough or n <= 2 or len(grp) == 1))
                st.evaluations += 1
                st.traces += 1
                st.nontrivial += int(nontrivial)
                for sig, det in fails:
                    st.violation(sig, {"kind": "fuse", "x": d, "groups": grp, "nested": None}, det)
                if st.evaluations == 17 and k == 0:
                    st.sample({"x": describe(build(d)), "groups": [list(g) for g in grp]})
        if slice_mod > 1:
            st.counters["capped"] += 1
            st.notes.append(f"n={n}: residue slice 1/{slice_mod} of the groupings per array (seed-tiled; all groupings over all arrays in thorough)")
    else:
        k, nch = group[3:]
        # nested: first fuse one pair of a 3-index array, then every grouping of the 2-index result,
        # and first fuse of a 4-index array into 3 axes then groupings containing the fused axis
        first3 = [((0, 1),), ((2, 0),), ((1, 2),)]
        slice_mod = 1 if ctx.thorough else 3
        # contiguous blocks (not round-robin): neighbouring arrays - same indices, different stored sectors - run in the
        # same process one after the other, so the warm fuse cache is shared between near-identical arrays
        stream = list(array_stream(ctx, sym, 3, ferm))
        blk = (len(stream) + nch - 1) // nch
        for i, d in enumerate(stream):
            if i // blk != k:
                continue
            if slice_mod > 1 and (i % slice_mod) != ctx.seed % slice_mod and False:
                continue
            for gi1, g1 in enumerate(first3):
                if slice_mod > 1 and gi1 != ctx.seed % len(first3):
                    continue
                for g2 in all_groupings(2):
                    fails, nontrivial = fuse_case_failures(d, g1, st, nested=g2, cache=True)
                    st.evaluations += 1
                    st.traces += 1
                    st.nontrivial += int(nontrivial)
                    for sig, det in fails:
                        st.violation(sig, {"kind": "fuse", "x": d, "groups": g1, "nested": g2}, det)
        if slice_mod > 1:
            st.counters["capped"] += 1
            st.notes.append("nested: one of the three first groupings per seed (all arrays); all three in thorough")
    return st


def replay(ctx, case):
    return fuse_case_failures(case["x"], case["groups"], nested=case.get("nested"))[0]
