"""C12 - spectra and solutions equal those of the dense matrix.

Same matrix universe as C11; oracle = numpy on the harness's dense embedding."""

from . import c11

PROP = "C12"
BUDGET = c11.BUDGET
META = dict(
    c11.META,
    rule=c11.META["rule"] + "; compared: multiset of non-zero singular values, Frobenius norm (abelian and fermionic), eigenvalues on the stored sectors and solve() against numpy.linalg on the dense embedding (abelian)",
    assumptions=[
        "numpy.linalg.svd / eigvalsh / solve on the dense embedding are the reference; rel. tolerance 1e-8",
        "values below 1e-8 * s_max count as zero singular values on both sides",
        "eigenvalues 'on the stored sectors': the dense spectrum minus one zero per row of every unstored diagonal sector",
    ],
)


def groups(ctx):
    return c11.groups(ctx)


def run_group(ctx, group):
    return c11.run_group(ctx, group, prefix="C12", c12=True)


def replay(ctx, case):
    return c11.replay(ctx, case, prefix="C12", c12=True)
