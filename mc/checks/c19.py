"""C19 - edge-wise Hamiltonians add up to the lattice Hamiltonian, each term once.

E-enum against R-fock on the whole lattice: for every labelled simple graph the
two-site arrays returned by the builders are turned into full-lattice operators
(Jordan-Wigner matrices on all modes), summed over edges and compared with the
Hamiltonian written down directly; parse_edges_to_site_info is checked on the
same graphs."""

import itertools

import numpy as np

from .. import groups as G
from .. import ref_fock as RF
from ..runner import Stats, reset_library_state

PROP = "C19"
BUDGET = {"quick": 300, "thorough": 3000}
META = {
    "rule": "every labelled simple graph with >=1 edge on 2-5 sites (71 + 1023 graphs; spinful builders on graphs touching <=4 sites), spinless 6-site graphs in thorough; per graph: edges in "
    "ascending / descending / mixed orientation x two list orders, site labels as ints / 2-tuples / strings (site description: also two-digit ints, negative ints, tuples with two-digit and negative coordinates, strings with numbers - labelings whose natural, string and listing orders differ; one such labeling per graph for the spinless builders), coefficients as scalars / dicts keyed in either orientation / callables with "
    "bond- and site-dependent values, and mixed forms in which only one coefficient varies (rotating over the graphs); builders: spinless (Z2, U1) and spinful (Z2, U1, Z2Z2, U1U1). non-trivial = graph with a site of degree >= 2",
    "bounds": {"quick": "<=4 sites all builders and all six edge-listing variants; 5 sites spinless (and spinful sub-graphs touching <=4 sites) with two variants", "thorough": "5 sites all variants; spinless 6 sites sliced"},
    "assumptions": [
        "Jordan-Wigner matrices on all lattice modes are the reference; tolerance 1e-10 relative to the largest coefficient",
        "array elements are read from the blocks with the harness's inverse of the documented charge maps and converted from the documented element convention (bra sites not reversed) to the true dual basis by (-1)**(p(i')p(j'))",
    ],
}


def all_graphs(n):
    pairs = list(itertools.combinations(range(n), 2))
    for r in range(1, len(pairs) + 1):
        for es in itertools.combinations(pairs, r):
            yield es


def label_of(kind, i):
    if kind == "int":
        return i
    if kind == "tuple":
        return (i // 2, i % 2)
    # labelings whose natural order, string order and listing order all differ
    if kind == "int10":
        return i + 8
    if kind == "negint":
        return i - 3
    if kind == "tuple10":
        return (i + 8, -i)
    if kind == "strnum":
        return "x" + str(i + 8)
    return "s" + chr(ord("a") + i)


EXOTIC = ("int10", "negint", "tuple10", "strnum")


def variant_edges(es, orient, order, kind):
    out = []
    for k, (a, b) in enumerate(es):
        la, lb = label_of(kind, a), label_of(kind, b)
        if orient == "desc" or (orient == "mixed" and k % 2):
            la, lb = lb, la
        out.append((la, lb))
    if order == "rev":
        out = out[::-1]
    return out


def coefficient_forms(edges, form, spinful):
    """returns (kwargs for the builder, per-edge t, per-edge V, per-site U, per-site mu)"""
    sites = sorted({s for e in edges for s in e}, key=repr)
    tt = {e: 1.0 + 0.1 * k for k, e in enumerate(edges)}
    VV = {e: 1.7 - 0.15 * k for k, e in enumerate(edges)}
    UU = {s: 3.0 + 0.2 * k for k, s in enumerate(sites)}
    MM = {s: 0.6 - 0.3 * k for k, s in enumerate(sites)}
    if form == "scalar":
        tt = {e: 1.25 for e in edges}
        VV = {e: 0.75 for e in edges}
        UU = {s: 3.5 for s in sites}
        MM = {s: 0.4 for s in sites}
        kw = dict(t=1.25, mu=0.4)
        kw.update(dict(U=3.5) if spinful else dict(V=0.75))
    elif form == "mixed-mu":
        # uniform bonds and interaction, site-dependent chemical potential only
        tt = {e: 1.25 for e in edges}
        VV = {e: 0.75 for e in edges}
        UU = {s: 3.5 for s in sites}
        kw = dict(t=1.25, mu=dict(MM))
        kw.update(dict(U=3.5) if spinful else dict(V=0.75))
    elif form == "mixed-u":
        # uniform hopping and chemical potential, site-dependent interaction (spinless: bond-dependent V)
        tt = {e: 1.25 for e in edges}
        MM = {s: 0.4 for s in sites}
        kw = dict(t=1.25, mu=0.4)
        kw.update(dict(U=lambda s: UU[s]) if spinful else dict(V={(b, a): v for (a, b), v in VV.items()}))
    elif form == "dict":
        # bond dicts keyed in the REVERSED orientation, site dicts
        kw = dict(t={(b, a): v for (a, b), v in tt.items()}, mu=dict(MM))
        kw.update(dict(U=dict(UU)) if spinful else dict(V=dict(VV)))
    else:
        def key(a, b):
            return (a, b) if (a, b) in tt else (b, a)

        kw = dict(t=lambda a, b: tt[key(a, b)], mu=lambda s: MM[s])
        kw.update(dict(U=lambda s: UU[s]) if spinful else dict(V=lambda a, b: VV[key(a, b)]))
    return kw, tt, VV, UU, MM


def read_elements(Garr, index_maps):
    """dense o[i', j', i, j] in the ORIGINAL linear order, from the blocks, using only the documented index maps"""
    maps = list(index_maps) * 2
    pos = []
    for m in maps:
        byc = {}
        for i, c in enumerate(m):
            byc.setdefault(c, []).append(i)
        pos.append(byc)
    out = np.zeros([len(m) for m in maps])
    for sec, blk in Garr.blocks.items():
        blk = np.asarray(blk)
        if Garr.phases.get(sec, 1) == -1:
            blk = -blk
        out[np.ix_(*[pos[k][c] for k, c in enumerate(sec)])] = blk
    return out


def lattice_failures(sym, spinful, edges, form, st=None):
    import symmray as sr
    from symmray.fermionic_local_operators import get_spinful_charge_indexmap, get_spinless_charge_indexmap

    fails = []
    sites = sorted({s for e in edges for s in e}, key=repr)
    kw, tt, VV, UU, MM = coefficient_forms(edges, form, spinful)
    name = "ham_fermi_hubbard_from_edges" if spinful else "ham_fermi_hubbard_spinless_from_edges"
    if form == "dict":
        # history: a first build with other values, then the caller updates the SAME containers in place
        before = {k: dict(v) for k, v in kw.items() if isinstance(v, dict)}
        try:
            getattr(sr, name)(sym, edges, **kw)
        except Exception as e:
            return [(f"C19/{name}/raised-{type(e).__name__}", f"{edges} form={form}: {e}")]
        for k, v in before.items():
            if kw[k] != v:
                fails.append((f"C19/{name}/caller-container-modified", f"the {k} dict handed to the builder was changed: {sorted(set(kw[k]) ^ set(v), key=repr)[:4]}"))
        for k in before:
            for key in list(before[k]):
                kw[k][key] = kw[k][key] * 1.5 + 0.25
        tt = {e: v * 1.5 + 0.25 for e, v in tt.items()}
        MM = {s_: v * 1.5 + 0.25 for s_, v in MM.items()}
        if spinful:
            UU = {s_: v * 1.5 + 0.25 for s_, v in UU.items()}
        else:
            VV = {e: v * 1.5 + 0.25 for e, v in VV.items()}
    try:
        terms = getattr(sr, name)(sym, edges, **kw)
    except Exception as e:
        return [(f"C19/{name}/raised-{type(e).__name__}", f"{edges} form={form}: {e}")]
    if st is not None:
        st.transitions += len(edges)
    if set(terms) != set(edges) or len(terms) != len(edges):
        fails.append((f"C19/{name}/edge-keys", f"returned keys {sorted(terms, key=repr)} for edges {edges}"))
        return fails
    if spinful:
        modes = [(s, sp) for s in sites for sp in "ud"]
        im = list(get_spinful_charge_indexmap(sym))
    else:
        modes = [(s, "") for s in sites]
        im = list(get_spinless_charge_indexmap(sym))
    labels = sorted(modes, key=repr)
    ops = RF.jw_ops(labels)
    dim = 2 ** len(labels)
    I = np.eye(dim)
    cr = {m: ops[m].T.conj() for m in labels}
    an = {m: ops[m] for m in labels}
    num = {m: cr[m] @ an[m] for m in labels}
    # the Hamiltonian written down directly
    H = np.zeros((dim, dim))
    for (a, b) in edges:
        if spinful:
            for sp in "ud":
                H += -tt[(a, b)] * (cr[(a, sp)] @ an[(b, sp)] + cr[(b, sp)] @ an[(a, sp)])
        else:
            H += -tt[(a, b)] * (cr[(a, "")] @ an[(b, "")] + cr[(b, "")] @ an[(a, "")])
            H += VV[(a, b)] * num[(a, "")] @ num[(b, "")]
    for s in sites:
        if spinful:
            H += UU[s] * num[(s, "u")] @ num[(s, "d")] - MM[s] * (num[(s, "u")] + num[(s, "d")])
        else:
            H += -MM[s] * num[(s, "")]

    def basis_ops(s):
        if spinful:  # documented: (|00>, ad+|00>, au+|00>, au+ad+|00>)
            return [[], [(s, "d")], [(s, "u")], [(s, "u"), (s, "d")]]
        return [[], [(s, "")]]

    Hs = np.zeros((dim, dim))
    for (a, b), Garr in terms.items():
        if Garr.ndim != 4 or tuple(Garr.duals) != (False, False, True, True):
            fails.append((f"C19/{name}/array-structure", f"edge {(a, b)}: ndim {Garr.ndim} duals {Garr.duals}"))
            continue
        el = read_elements(Garr, [im, im])
        Ba, Bb = basis_ops(a), basis_ops(b)
        P = I.copy()
        for m in Ba[-1] + Bb[-1]:
            P = P @ (I - num[m])
        na, nb = len(Ba), len(Bb)

        def C(i, j):
            mat = I.copy()
            for lab in Ba[i] + Bb[j]:
                mat = mat @ cr[lab]
            return mat

        Cs = {(i, j): C(i, j) for i in range(na) for j in range(nb)}
        for (ip, jp), Cl in Cs.items():
            sgn = (-1) ** ((len(Ba[ip]) % 2) * (len(Bb[jp]) % 2))
            acc = None
            for (i, j), Cr in Cs.items():
                e = el[ip, jp, i, j]
                if e == 0:
                    continue
                acc = e * Cr.T.conj() if acc is None else acc + e * Cr.T.conj()
            if acc is not None:
                Hs += sgn * (Cl @ P @ acc)
    scale = max(1.0, float(np.max(np.abs(H))))
    if np.max(np.abs(H - Hs)) > 1e-10 * scale:
        fails.append((f"C19/{name}/lattice-sum", f"sym={sym} edges={edges} form={form}: sum of the edge terms differs from the lattice Hamiltonian by {np.max(np.abs(H - Hs)):.3e}"))
    return fails


def site_info_failures(edges, st=None):
    import symmray as sr

    fails = []
    try:
        info = sr.parse_edges_to_site_info(edges, bond_dim=3, phys_dim=2)
    except Exception as e:
        return [(f"C19/parse_edges_to_site_info/raised-{type(e).__name__}", f"{edges}: {e}")]
    if st is not None:
        st.transitions += 1
    sites = {s for e in edges for s in e}
    deg = {s: sum(1 for e in edges if s in e) for s in sites}
    if set(info) != sites:
        fails.append(("C19/parse_edges_to_site_info/sites", f"{sorted(info, key=repr)} vs {sorted(sites, key=repr)}"))
        return fails
    bond_names = {}
    for s, d in info.items():
        if d.get("coordination") != deg[s]:
            fails.append(("C19/parse_edges_to_site_info/coordination", f"site {s!r}: {d.get('coordination')} but degree {deg[s]}"))
        if not (len(d["inds"]) == len(d["duals"]) == len(d["shape"]) == deg[s] + 1):
            fails.append(("C19/parse_edges_to_site_info/lengths", f"site {s!r}: inds {len(d['inds'])} duals {len(d['duals'])} shape {len(d['shape'])} degree {deg[s]}"))
            continue
        for nm, du in zip(d["inds"][: deg[s]], d["duals"][: deg[s]]):
            bond_names.setdefault(nm, []).append((s, bool(du)))
    if len(bond_names) != len(edges):
        fails.append(("C19/parse_edges_to_site_info/bond-count", f"{len(bond_names)} bond names for {len(edges)} edges"))
    ends = sorted(tuple(sorted((repr(s) for s, _ in occ))) for occ in bond_names.values())
    want = sorted(tuple(sorted((repr(a), repr(b)))) for a, b in edges)
    if ends != want:
        fails.append(("C19/parse_edges_to_site_info/bond-ends", "a bond name does not sit on exactly its two end sites"))
    for nm, occ in bond_names.items():
        if len(occ) != 2 or occ[0][1] == occ[1][1]:
            fails.append(("C19/parse_edges_to_site_info/bond-directions", f"bond {nm}: {occ}"))
            break
    return fails


BUILDERS = [("Z2", False), ("U1", False), ("Z2", True), ("U1", True), ("Z2Z2", True), ("U1U1", True)]


def groups(ctx):
    out = []
    nmax = 5
    for n in range(2, nmax + 1):
        nch = {2: 1, 3: 1, 4: 8, 5: 64}[n]
        for k in range(nch):
            out.append(("graphs", n, k, nch))
    if ctx.thorough:
        for k in range(64):
            out.append(("graphs6", 6, k, 64))
    return out


def run_group(ctx, group):
    kind, n, k, nch = group
    st = Stats()
    reset_library_state()
    orients = ("asc", "desc", "mixed")
    orders = ("fwd", "rev")
    kinds = ("int", "tuple", "str")
    forms = ("scalar", "dict", "callable", "mixed-mu", "mixed-u")
    for gi, es in enumerate(all_graphs(n)):
        if gi % nch != k:
            continue
        if kind == "graphs6" and (gi // nch) % 8 != ctx.seed % 8:
            continue
        st.states += 1
        v = 0
        for orient in orients:
            for order in orders:
                v += 1
                lk = kinds[(gi + v) % 3]
                form = forms[(gi + 2 * v) % 5]
                edges = variant_edges(es, orient, order, lk)
                for sig, det in site_info_failures(edges, st):
                    st.violation(sig, {"kind": "siteinfo", "edges": edges}, det)
                for xk in EXOTIC:
                    xedges = variant_edges(es, orient, order, xk)
                    for sig, det in site_info_failures(xedges, st):
                        st.violation(sig, {"kind": "siteinfo", "edges": xedges}, det)
                if v == 1 + gi % 2 and kind != "graphs6":
                    # one more lattice per graph with an exotic labeling (rotating), spinless builders
                    xedges = variant_edges(es, orient, order, EXOTIC[(gi // 2) % 4])
                    for sym, spinful in BUILDERS[:2]:
                        fails = lattice_failures(sym, spinful, xedges, forms[(gi + v) % 5], st)
                        st.evaluations += 1
                        st.traces += 1
                        for sig, det in fails:
                            st.violation(sig, {"kind": "lattice", "sym": sym, "spinful": spinful, "edges": xedges, "form": forms[(gi + v) % 5]}, det)
                for sym, spinful in BUILDERS:
                    nsites = len({s for e in es for s in e})
                    if spinful and nsites > 4:
                        continue
                    if n == 5 and not ctx.thorough and v > 2:
                        continue
                    if kind == "graphs6" and spinful:
                        continue
                    if kind == "graphs6" and v > 2:
                        continue
                    fails = lattice_failures(sym, spinful, edges, form, st)
                    st.evaluations += 1
                    st.traces += 1
                    if max(sum(1 for e in es if s in e) for s in range(n)) >= 2:
                        st.nontrivial += 1
                    for sig, det in fails:
                        st.violation(sig, {"kind": "lattice", "sym": sym, "spinful": spinful, "edges": edges, "form": form}, det)
        if gi == 5 or not st.samples:
            st.sample({"graph_edges": [list(e) for e in es], "variant": repr(variant_edges(es, "mixed", "rev", "tuple"))})
    if kind == "graphs6":
        st.counters["capped"] += 1
        st.notes.append("6-site spinless graphs: residue slice 1/8 by seed, two edge-listing variants")
    return st


def replay(ctx, case):
    if case["kind"] == "siteinfo":
        return site_info_failures([tuple(e) for e in case["edges"]])
    return lattice_failures(case["sym"], case["spinful"], [tuple(e) for e in case["edges"]], case["form"])
