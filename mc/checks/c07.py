"""C07 - reshape only regroups axes and is undone by reshaping back.

(a) the axis-matching routine calc_reshape_args, exhaustively over all shapes
with <=5 axes of sizes in {1,2,3,4,6}, every merge/drop target and the trip
back, against a plan interpreter;  (b) real arrays: every merge/drop target
and back, exact on integer tags."""

import itertools

import numpy as np

from .. import groups as G
from .. import ref_graded as RG
from .. import universe as U
from ..arrays import arrd, build, describe, embed, exact_equal, frame_of, gt_of, index_key, index_plain_key, ixd
from ..runner import Stats, reset_library_state

PROP = "C07"
BUDGET = {"quick": 300, "thorough": 3000}
META = {
    "rule": "(a) every shape with <=5 axes over sizes {1,2,3,4,6} x every target = contiguous merge of adjacent axes then dropping any subset of "
    "size-one axes, forward plan and the reverse plan with the sub-sizes the forward plan produces, executed by a plan interpreter; "
    "(b) real arrays with axis sizes in {1,2,3} (size-one axes with zero and non-zero charge, a pre-fused axis variant), n<=4, x the same target "
    "family and back. non-trivial = the plan contains at least one fuse group of >=2 axes or an unfuse",
    "bounds": {"quick": "(a) complete; (b) n<=3 complete, n=4 reduced direction patterns", "thorough": "(a) complete; (b) n<=4 all direction patterns"},
    "assumptions": [
        "content comparison uses distinct integer tags: equal multiset of NON-ZERO magnitudes (fusing legitimately adds exact zeros)",
        "fermionic values are compared after applying pending signs in the harness embedding",
    ],
}

SIZES = (1, 2, 3, 4, 6)


def targets_of(shape):
    """every target reachable by merging adjacent axes and then dropping any subset of the size-one axes"""
    n = len(shape)
    out = set()
    for cuts in itertools.chain.from_iterable(itertools.combinations(range(1, n), r) for r in range(n)) if n else [()]:
        b = [0, *cuts, n]
        merged = tuple(int(np.prod(shape[b[i] : b[i + 1]], dtype=int)) for i in range(len(b) - 1)) if n else ()
        ones = [i for i, d in enumerate(merged) if d == 1]
        for r in range(len(ones) + 1):
            for drop in itertools.combinations(ones, r):
                out.add(tuple(d for i, d in enumerate(merged) if i not in drop))
    return sorted(out)


class _Skip(Exception):
    pass


def interpret(shape, subsizes, plan):
    """apply (unfuse list, fuse groupings, expand positions) to an abstract shape.
    returns (final shape, final subsizes) or raises ValueError on an ill-formed plan"""
    axs_unfuse, axs_fuse, axs_expand = plan
    cur = [(d, s) for d, s in zip(shape, subsizes)]
    for ax in axs_unfuse:
        if not (0 <= ax < len(cur)) or cur[ax][1] is None:
            raise ValueError(f"unfuse of axis {ax} without sub-sizes")
        cur = cur[:ax] + [(d, None) for d in cur[ax][1]] + cur[ax + 1 :]
    for grouping in axs_fuse:
        flat = [ax for g in grouping for ax in g]
        if len(set(flat)) != len(flat) or any(not (0 <= ax < len(cur)) for ax in flat):
            raise ValueError(f"fuse groups overlap or out of range: {grouping}")
        for g in grouping:
            if list(g) != list(range(g[0], g[0] + len(g))):
                raise ValueError(f"non-contiguous fuse group {g}")
        pos = min(flat)
        before = [cur[ax] for ax in range(pos) if ax not in flat]
        after = [cur[ax] for ax in range(pos, len(cur)) if ax not in flat]
        fused = [(int(np.prod([cur[ax][0] for ax in g], dtype=int)), tuple(cur[ax][0] for ax in g)) for g in grouping]
        cur = before + fused + after
    for ax in axs_expand:
        if not (0 <= ax <= len(cur)):
            raise ValueError(f"expand position {ax} out of range")
        cur = cur[:ax] + [(1, None)] + cur[ax:]
    return tuple(d for d, _ in cur), tuple(s for _, s in cur)


def routine_failures(shape, target):
    from symmray.abelian_core import calc_reshape_args

    fails = []
    sub0 = (None,) * len(shape)
    allones = "all-singleton->()" if (target == () and shape) else "general"
    try:
        plan = calc_reshape_args(tuple(shape), tuple(target), sub0)
    except Exception as e:
        return [(f"C07/calc_reshape_args/{allones}/raised-{type(e).__name__}", f"{shape}->{target}: {e}")], False
    try:
        final, subs = interpret(shape, sub0, plan)
    except ValueError as e:
        return [(f"C07/calc_reshape_args/{allones}/ill-formed-plan", f"{shape}->{target}: {e} plan={plan}")], False
    if final != tuple(target):
        return [(f"C07/calc_reshape_args/{allones}/wrong-shape", f"{shape}->{target}: plan {plan} gives {final}")], False
    nontrivial = any(len(g) > 1 for grouping in plan[1] for g in grouping)
    # trip back with the sub-sizes produced
    try:
        back = calc_reshape_args(tuple(final), tuple(shape), subs)
        f2, _ = interpret(final, subs, back)
        if f2 != tuple(shape):
            fails.append((f"C07/calc_reshape_args/back/wrong-shape", f"{final}->{shape}: plan {back} gives {f2}"))
    except ValueError as e:
        fails.append((f"C07/calc_reshape_args/back/ill-formed-or-refused", f"{final}->{shape} subs={subs}: {e}"))
    except Exception as e:
        fails.append((f"C07/calc_reshape_args/back/raised-{type(e).__name__}", f"{final}->{shape} subs={subs}: {e}"))
    return fails, nontrivial


# --------------------------------------------------------------------------- #
# (b) real arrays

def index_menu(sym):
    """chargemaps by total size 1, 1', 2, 3"""
    al = G.ALPHABET[sym]
    e = G.identity(sym)
    odd = [c for c in al if G.parity(sym, c) == 1][0]
    other = [c for c in al if c not in (e, odd)]
    third = other[0] if other else None
    menu = [
        {e: 1},
        {odd: 1},
        {e: 1, odd: 1},
        {e: 1, odd: 2},
    ]
    if third is not None:
        menu.append({e: 1, odd: 1, third: 1})
    return menu


def dual_patterns(n, full):
    pats = list(itertools.product((False, True), repeat=n))
    if full or n <= 3:
        return pats
    keep = [(False,) * n, (True,) * n, tuple(i % 2 == 0 for i in range(n)), tuple(i % 2 == 1 for i in range(n)), (True,) + (False,) * (n - 1)]
    return [p for p in pats if p in keep]


def real_arrays(ctx, sym, n, ferm):
    menu = index_menu(sym)
    sp = {0: "all", 1: "all", 2: "all", 3: "le1", 4: "probe"}[n]
    for cms in itertools.product(menu, repeat=n):
        for duals in dual_patterns(n, ctx.thorough):
            indices = tuple(ixd(cm, d) for cm, d in zip(cms, duals))
            kw = dict(ferm=True, label=4, phases="probe0") if ferm else {}
            yield from U.arrays_over(sym, indices, "two" if n >= 3 else "all", sp, **kw)


def content(x):
    vals = []
    for b in x.blocks.values():
        v = np.abs(np.asarray(b)).ravel()
        vals.extend(v[v != 0].tolist())
    return sorted(vals)


def reshape_failures(d, st=None):
    import autoray as ar
    import symmray as sr

    fails = []
    x = build(d)
    ferm = d["ferm"]
    shape = tuple(x.shape)
    X = embed(x)
    keys = tuple(index_key(i) for i in x.indices)
    nontrivial = False
    # identity
    try:
        y = x.reshape(shape)
        same_ix = tuple(index_key(i) for i in y.indices) == keys
        if not same_ix or not exact_equal(embed(y), X) or y.charge != x.charge:
            fails.append(("C07/reshape/identity", f"{shape}: reshape to the current shape changed the array"))
    except Exception as e:
        fails.append((f"C07/reshape/identity-raised-{type(e).__name__}", f"{shape}: {e}"))
    # the current shape spelled with a -1 wildcard must also be the identity
    for pos in range(len(shape) if 0 not in shape else 0):  # a wildcard is ambiguous for empty arrays (numpy refuses too)
        wild = shape[:pos] + (-1,) + shape[pos + 1 :]
        for name, fn in (("reshape", lambda: x.reshape(wild)), ("autoray.reshape", lambda: ar.do("reshape", x, wild))):
            try:
                y = fn()
                if st is not None:
                    st.transitions += 1
                if tuple(index_key(i) for i in y.indices) != keys or not exact_equal(embed(y), X) or y.charge != x.charge:
                    fails.append((f"C07/{name}/identity-wildcard", f"{shape}: reshape({wild}) changed the array"))
            except Exception as e:
                fails.append((f"C07/{name}/identity-wildcard-raised-{type(e).__name__}", f"{shape} as {wild}: {e}"))
    # two nested merges, a conjugate in between, and the two splits back: must give the conjugate of the original
    # (abelian arrays: conj commutes with regrouping; the sub-index bookkeeping has to be conjugated at every level)
    if not ferm and len(shape) >= 3 and 1 not in shape and all(ix.subinfo is None for ix in x.indices) and x.blocks:
        try:
            m1 = (shape[0] * shape[1],) + shape[2:]
            y1 = x.reshape(m1)
            s1 = tuple(y1.shape)
            m2 = (s1[0] * s1[1],) + s1[2:]
            y2 = y1.reshape(m2)
            if s1 != m1 or tuple(y2.shape) != m2:
                raise _Skip()  # sparsity shrank a merged axis: sizes no longer identify the grouping
            w = y2.conj()
            z = w.reshape(s1).reshape(shape)
            if st is not None:
                st.transitions += 5
            want_keys = tuple((k[0], not k[1], None) for k in keys)
            if tuple(index_key(i) for i in z.indices) != want_keys:
                fails.append(("C07/nested-merge-conj-split/indices", f"{shape}: merge, merge, conj, split, split does not give the conjugated original indices"))
            elif not exact_equal(embed(z, frame_of(x), dtype=X.dtype), np.conj(X)):
                fails.append(("C07/nested-merge-conj-split/value", f"{shape}"))
        except _Skip:
            pass
        except Exception as e:
            fails.append((f"C07/nested-merge-conj-split/raised-{type(e).__name__}", f"{shape}: {e}"))
    # targets that split fused axes again (one and two levels), taken from the sub-index info of the array itself
    split_targets = []
    for ax, ix in enumerate(x.indices):
        if ix.subinfo is not None:
            sub = tuple(s_.size_total for s_ in ix.subinfo.indices)
            if int(np.prod(sub, dtype=int)) != shape[ax]:
                continue  # a sparse fused axis is smaller than the product of its parts: not a size-preserving request
            t1 = shape[:ax] + sub + shape[ax + 1 :]
            split_targets.append(t1)
            for k2, s2 in enumerate(ix.subinfo.indices):
                if s2.subinfo is not None:
                    sub2 = tuple(q.size_total for q in s2.subinfo.indices)
                    if int(np.prod(sub2, dtype=int)) == sub[k2]:
                        split_targets.append(shape[:ax] + sub[:k2] + sub2 + sub[k2 + 1 :] + shape[ax + 1 :])
    for target in list(targets_of(shape)) + split_targets:
        if target == shape:
            continue
        cls = "all-singleton->()" if target == () else "general"
        for name, fn in (("reshape", lambda: x.reshape(target)), ("autoray.reshape", lambda: ar.do("reshape", x, target))):
            try:
                y = fn()
            except Exception as e:
                fails.append((f"C07/{name}/{cls}/raised-{type(e).__name__}", f"{shape}->{target}: {e}"))
                continue
            if st is not None:
                st.transitions += 1
            if not isinstance(y, sr.AbelianArray):
                fails.append((f"C07/{name}/{cls}/type", f"{type(y)}"))
                continue
            if y.ndim != len(target):
                fails.append((f"C07/{name}/{cls}/rank", f"{shape}->{target}: got ndim {y.ndim}"))
                continue
            if any(a > b for a, b in zip(y.shape, target)):
                fails.append((f"C07/{name}/{cls}/axis-larger-than-requested", f"{shape}->{target}: got {y.shape}"))
            if content(y) != content(x):
                fails.append((f"C07/{name}/{cls}/content", f"{shape}->{target}: multiset of non-zero magnitudes changed"))
            if y.charge != x.charge:
                fails.append((f"C07/{name}/{cls}/charge", f"{shape}->{target}"))
            if name != "reshape":
                continue
            if any(ix.subinfo is not None for ix in y.indices):
                nontrivial = True
            # back
            try:
                z = y.reshape(shape)
            except Exception as e:
                fails.append((f"C07/reshape-back/{cls}/raised-{type(e).__name__}", f"{shape}->{target}->back (got {y.shape}): {e}"))
                continue
            if st is not None:
                st.transitions += 1
            ambiguous = target in split_targets and 1 in target
            if tuple(index_key(i) for i in z.indices) != keys and not ambiguous:
                fails.append((f"C07/reshape-back/{cls}/indices", f"{shape}->{target}->back: index tables not restored"))
                continue
            if ambiguous:
                # splitting a fused axis that has size-one parts and merging again: which neighbour absorbs the singleton is
                # the routine's choice (a different but equivalent grouping), so only rank, content and charge are compared
                if z.ndim != x.ndim or content(z) != content(x) or z.charge != x.charge:
                    fails.append((f"C07/reshape-back/{cls}/content", f"{shape}->{target}->back: rank, content or charge changed"))
                continue
            if z.charge != x.charge:
                fails.append((f"C07/reshape-back/{cls}/charge", f"{shape}->{target}->back"))
            if not exact_equal(embed(z, frame_of(x), dtype=X.dtype), X):
                fails.append((f"C07/reshape-back/{cls}/value", f"{shape}->{target}->back: original not restored"))
            elif not ferm:
                for s, blk in x.blocks.items():
                    if s not in z.blocks or not exact_equal(z.blocks[s], blk):
                        fails.append((f"C07/reshape-back/{cls}/block", f"{shape}->{target}->back: block {s}"))
                        break
            # the conjugate of x, taken only now (x's index objects have been through this merge), makes the same trip
            if cls == "general" and len(target) < len(shape) and x.blocks:
                try:
                    xc = x.conj()
                    zc = xc.reshape(target).reshape(shape)
                    if st is not None:
                        st.transitions += 2
                    if tuple(index_key(i) for i in zc.indices) != tuple(index_key(i) for i in xc.indices):
                        fails.append(("C07/conj-after-merge/indices", f"{shape}->{target}->back on the conjugate taken after the merge: index tables not restored"))
                    elif zc.charge != xc.charge or not exact_equal(embed(zc, frame_of(xc)), embed(xc)):
                        fails.append(("C07/conj-after-merge/value", f"{shape}->{target}->back on the conjugate taken after the merge"))
                except Exception as e:
                    fails.append((f"C07/conj-after-merge/raised-{type(e).__name__}", f"{shape}->{target}: {e}"))
    return fails, nontrivial


def groups(ctx):
    out = []
    for n in range(0, 6):
        nch = {0: 1, 1: 1, 2: 1, 3: 1, 4: 4, 5: 16}[n]
        for k in range(nch):
            out.append(("routine", n, k, nch))
    for sym in G.SYMS:
        for ferm in (False, True):
            for n in (0, 1, 2, 3, 4):
                nch = {0: 1, 1: 1, 2: 1, 3: 4, 4: 16}[n]
                for k in range(nch):
                    out.append(("real", sym, ferm, n, k, nch))
            for k in range(4):
                out.append(("prefused", sym, ferm, k, 4))
    return out


def run_group(ctx, group):
    st = Stats()
    reset_library_state()
    if group[0] == "routine":
        _, n, k, nch = group
        for i, shape in enumerate(itertools.product(SIZES, repeat=n)):
            if i % nch != k:
                continue
            st.states += 1
            for target in targets_of(shape):
                fails, nontrivial = routine_failures(shape, target)
                st.evaluations += 1
                st.transitions += 2
                st.traces += 1
                st.nontrivial += int(nontrivial)
                for sig, det in fails:
                    st.violation(sig, {"kind": "routine", "shape": shape, "target": target}, det)
            if i == 77 and n == 4:
                st.sample({"shape": list(shape), "targets": [list(t) for t in targets_of(shape)][:6]})
        return st
    if group[0] == "real":
        _, sym, ferm, n, k, nch = group
        stream = real_arrays(ctx, sym, n, ferm)
    else:
        _, sym, ferm, k, nch = group

        def prefused():
            for j, d in enumerate(real_arrays(ctx, sym, 3, ferm)):
                yield dict(d, derive=(("fuse", ((0, 1),)),))
                if j % 4 == 0:
                    # fused twice (nested sub-index info), then conjugated: reshape has to split both levels again
                    yield dict(d, derive=(("fuse", ((0, 1),)), ("fuse", ((0, 1),)), ("conj",)))
                    yield dict(d, derive=(("fuse", ((1, 2),)), ("conj",), ("fuse", ((1, 0),))))

        stream = prefused()
    for i, d in enumerate(stream):
        if i % nch != k:
            continue
        fails, nontrivial = reshape_failures(d, st)
        st.evaluations += 1
        st.states += 1
        st.traces += 1
        st.nontrivial += int(nontrivial)
        for sig, det in fails:
            st.violation(sig, {"kind": "real", "x": d}, det)
        if i == 37:
            st.sample({"x": describe(build(d)), "targets": [list(t) for t in targets_of(tuple(build(d).shape))][:5]})
    return st


def replay(ctx, case):
    if case["kind"] == "routine":
        return routine_failures(tuple(case["shape"]), tuple(case["target"]))[0]
    return reshape_failures(case["x"])[0]
