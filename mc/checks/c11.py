"""C11 - decompositions reconstruct the input from properly structured factors.

E-enum over the matrix universe (mc/linalg_common.py): direct matrices with
tall / wide / square / thin / rank-deficient blocks and matrices obtained by
fusing every small 3-index array in every way."""

import numpy as np

from .. import groups as G
from .. import linalg_common as LC
from ..arrays import build, describe
from ..runner import Stats, reset_library_state

PROP = "C11"
BUDGET = {"quick": 300, "thorough": 3000}
META = {
    "rule": "matrices: row/column charge subsets from the index menu x size patterns (tall, wide, square, mixed, 1xk) x 4 direction patterns x every total charge x sparsity patterns, "
    "abelian and fermionic (pending signs), real and complex, generic and rank-one blocks; plus every 3-index array (menu m2) fused to a matrix in six ways; Hermitian (i, i*) charge-zero "
    "matrices for eigh; diagonally dominant systems x right-hand sides of every charge for solve. non-trivial = >=2 stored blocks, or non-square / rank-deficient blocks, or pending signs",
    "bounds": {"quick": "menu m3", "thorough": "menu core"},
    "assumptions": [
        "floating point: relative tolerance 1e-8..1e-9 on reconstruction, orthonormality and triangularity; LAPACK via numpy is trusted on the small blocks",
        "block values are seeded Gaussians (designed, not enumerated); the enumerated dimension is the structure",
        "a fermionic matrix counts as Hermitian when the library's own x.H equals x (others are skipped and counted)",
    ],
}


def groups(ctx):
    out = []
    for sym in G.SYMS:
        for ferm in (False, True):
            nch = 6 if not ctx.thorough else 24
            for k in range(nch):
                out.append(("general", sym, ferm, k, nch))
            out.append(("fused", sym, ferm, 0, 1))
            out.append(("hermitian", sym, ferm, 0, 1))
            out.append(("solve", sym, ferm, 0, 1))
    return out


def nontrivial(x):
    if len(x.blocks) >= 2:
        return True
    if any(np.shape(b)[0] != np.shape(b)[1] for b in x.blocks.values() if np.ndim(b) == 2):
        return True
    return bool(getattr(x, "phases", None))


def run_group(ctx, group, prefix="C11", c12=False):
    kind, sym, ferm, k, nch = group
    st = Stats()
    reset_library_state()
    if kind in ("general", "fused"):
        stream = LC.matrix_descs(ctx, sym, ferm) if kind == "general" else LC.fused_matrix_descs(ctx, sym, ferm)
        for i, d in enumerate(stream):
            if i % nch != k:
                continue
            d = {kk: v for kk, v in d.items() if not kk.startswith("_")}
            try:
                x = build(d)
            except Exception as ex:
                st.violation(f"{prefix}/build/raised-{type(ex).__name__}", {"kind": kind, "x": d}, str(ex))
                continue
            fails = LC.spectrum_failures(x, st) if c12 else LC.structure_failures(x, st)
            st.evaluations += 1
            st.states += 1
            st.traces += 1
            st.nontrivial += int(nontrivial(x))
            for kd, det in fails:
                st.violation(f"{prefix}/{kd}", {"kind": kind, "x": d}, det)
            if len(d["sectors"]) >= 2 and not st.samples:
                st.sample({"matrix": describe(x), "fill": list(d["fill"]), "dtype": d["dtype"]})
    elif kind == "hermitian":
        if c12 and ferm:
            return st
        for d in LC.matrix_descs(ctx, sym, ferm, "hermitian"):
            x = build(d)
            if not LC.is_library_hermitian(x):
                st.counters["skipped_not_library_hermitian"] += 1
                continue
            fails = LC.eigh_failures(x, st, c12=c12)
            st.evaluations += 1
            st.states += 1
            st.traces += 1
            st.nontrivial += int(nontrivial(x))
            for kd, det in fails:
                st.violation(f"{prefix}/{kd}", {"kind": kind, "x": d}, det)
    else:
        for a_d, b_d, dense_ok in LC.solve_systems(ctx, sym, ferm):
            if c12 and (ferm or not dense_ok):
                continue
            a, b = build(a_d), build(b_d)
            fails = LC.solve_failures(a, b, st, c12=c12)
            st.evaluations += 1
            st.states += 1
            st.traces += 1
            st.nontrivial += int(len(a.blocks) >= 2)
            for kd, det in fails:
                st.violation(f"{prefix}/{kd}", {"kind": kind, "a": a_d, "b": b_d}, det)
    return st


def replay(ctx, case, prefix="C11", c12=False):
    kind = case["kind"]
    if kind in ("general", "fused"):
        x = build(case["x"])
        fails = LC.spectrum_failures(x) if c12 else LC.structure_failures(x)
    elif kind == "hermitian":
        fails = LC.eigh_failures(build(case["x"]), c12=c12)
    else:
        fails = LC.solve_failures(build(case["a"]), build(case["b"]), c12=c12)
    return [(f"{prefix}/{kd}", det) for kd, det in fails]
