"""C08 - structural, elementwise and arithmetic operations commute with densification.

E-enum over abelian arrays and block vectors; every operation of the
statement through the method, the symmray function and autoray dispatch;
reference = numpy on the harness's own dense embedding (R-dense), exact."""

import itertools
import operator

import numpy as np

from .. import groups as G
from .. import universe as U
from ..arrays import build, describe, embed, embed_vector, exact_equal, frame_of, index_key, index_plain_key
from ..runner import Stats, reset_library_state

PROP = "C08"
BUDGET = {"quick": 300, "thorough": 3000}
META = {
    "rule": "abelian arrays (n<=3, every direction pattern, total charge, sparsity pattern, real and complex) x {every permutation, conj, dagger/H/T, squeeze, "
    "expand_dims (every position, zero / non-zero charge, direction given / inherited), scalar * / rmul neg, + - * with a second operand of independent sparsity, "
    "multiply_diagonal on every axis with complete vectors and with each charge missing, sum, norm} x {method, symmray function, autoray.do}; block vectors over "
    "every charge subset x arithmetic (vector and scalar, reflected, power) x {abs, sqrt, clip, isfinite, log, log2, log10}. non-trivial = operand(s) with >=2 stored "
    "sectors and (for binary operations) different stored-sector sets",
    "bounds": {"quick": "n<=2 menu core / all sparsity; n=3 menu m3 / le1 sparsity", "thorough": "n=3 menu core"},
    "assumptions": [
        "'either does this or raises': any exception is a refusal (tallied), only a returned wrong value / inconsistent entry points is a violation",
        "norm compared with relative tolerance 1e-12; everything else exact (integer tags, identical ufuncs)",
        "for functions that do not preserve zero (log*, isfinite, clip outside 0) and for block-vector unary / scalar operations the comparison is on the stored sectors",
    ],
}


class Refused:
    def __init__(self, e):
        self.e = e


def call(fn):
    try:
        return fn()
    except BaseException as e:  # noqa - RecursionError etc are refusals, see META
        if isinstance(e, (KeyboardInterrupt, SystemExit, MemoryError)):
            raise
        return Refused(e)


def entries3(method, srfn, arfn):
    return (("method", method), ("symmray", srfn), ("autoray", arfn))


def check_entries(fails, st, op, entries, verify):
    """run every entry point, verify each returned value, require the same outcome class"""
    outs = []
    for ename, fn in entries:
        r = call(fn)
        outs.append((ename, r))
        if isinstance(r, Refused):
            if st is not None:
                st.refuse(f"{op}/{ename}", r.e)
            continue
        if st is not None:
            st.transitions += 1
        for kind, det in verify(r):
            fails.append((f"C08/{op}/{ename}/{kind}", det))
    classes = {ename: isinstance(r, Refused) for ename, r in outs}
    if len(set(classes.values())) > 1:
        fails.append((f"C08/{op}/entry-points-disagree", f"raised?: {classes} :: {[repr(r.e)[:80] for _, r in outs if isinstance(r, Refused)]}"))


def arr_verify(sym, ref, frame, duals, charge, keys=None):
    def v(c):
        import symmray as sr

        out = []
        if not isinstance(c, sr.AbelianArray):
            return [("type", f"{type(c).__name__}")]
        if c.ndim != ref.ndim:
            return [("rank", f"{c.ndim} vs {ref.ndim}")]
        if tuple(c.duals) != tuple(duals):
            out.append(("directions", f"{c.duals} expected {duals}"))
        if c.charge != charge:
            out.append(("charge", f"{c.charge!r} expected {charge!r}"))
        try:
            got = embed(c, frame, dtype=ref.dtype)
        except (KeyError, ValueError) as e:
            return out + [("frame", repr(e))]
        if not exact_equal(got, ref):
            out.append(("value", "dense form of the result differs from the dense operation"))
        if keys is not None and tuple(index_plain_key(i) for i in c.indices) != tuple(keys):
            out.append(("index-tables", "index tables changed"))
        return out

    return v


def array_failures(d, b_d=None, st=None):
    import autoray as ar
    import symmray as sr

    sym = d["sym"]
    x = build(d)
    X = embed(x)
    n = x.ndim
    fr = frame_of(x)
    keys = tuple(index_plain_key(i) for i in x.indices)
    fails = []
    e = G.identity(sym)

    # transpose: every permutation
    for perm in itertools.permutations(range(n)):
        check_entries(
            fails, st, "transpose",
            entries3(lambda: x.transpose(perm), lambda: sr.transpose(x, perm), lambda: ar.do("transpose", x, perm)),
            arr_verify(sym, X.transpose(perm), tuple(fr[p] for p in perm), tuple(x.duals[p] for p in perm), x.charge, tuple(keys[p] for p in perm)),
        )
        if n >= 2:
            # the same permutation spelled with negative axes (numpy convention)
            pneg = tuple(p - n for p in perm)
            check_entries(
                fails, st, "transpose[negative-axes]",
                entries3(lambda: x.transpose(pneg), lambda: sr.transpose(x, pneg), lambda: ar.do("transpose", x, pneg)),
                arr_verify(sym, X.transpose(perm), tuple(fr[p] for p in perm), tuple(x.duals[p] for p in perm), x.charge, tuple(keys[p] for p in perm)),
            )
    rev = tuple(range(n - 1, -1, -1))
    check_entries(fails, st, "T", (("method", lambda: x.T), ("symmray", lambda: sr.transpose(x))),
                  arr_verify(sym, X.transpose(rev), tuple(fr[p] for p in rev), tuple(x.duals[p] for p in rev), x.charge))
    # conj
    cduals = tuple(not dd for dd in x.duals)
    ncharge = G.neg(sym, x.charge)
    check_entries(fails, st, "conj", entries3(lambda: x.conj(), lambda: sr.conj(x), lambda: ar.do("conj", x)),
                  arr_verify(sym, np.conj(X), fr, cduals, ncharge))
    # dagger / H
    check_entries(fails, st, "dagger", (("method", lambda: x.dagger()), ("H", lambda: x.H)),
                  arr_verify(sym, np.conj(X).transpose(rev), tuple(fr[p] for p in rev), tuple(cduals[p] for p in rev), ncharge))
    # squeeze
    ones = [ax for ax in range(n) if x.shape[ax] == 1]
    sq_args = [None] + [ax for ax in ones] + ([tuple(ones)] if len(ones) > 1 else []) + [ax for ax in range(n) if ax not in ones][:1]
    # axes spelled negatively (numpy convention): single axes and the tuple of all size-one axes
    sq_args += [ax - n for ax in ones] + ([tuple(ax - n for ax in ones)] if len(ones) > 1 else []) + [ax - n for ax in range(n) if ax not in ones][:1]
    for axis in sq_args:
        axes = tuple(ones) if axis is None else ((axis,) if isinstance(axis, int) else axis)
        axes = tuple(a % n for a in axes) if n else axes
        if any(x.shape[a] != 1 for a in axes):
            ref = None
        else:
            ref = np.squeeze(X, axis=axes) if axes else X
        keep = [a for a in range(n) if a not in axes]

        def v(c, ref=ref, keep=keep):
            if ref is None:
                return [("accepted-bad-axis", "squeeze of an axis of size > 1 returned a value")]
            return arr_verify(sym, ref, tuple(fr[a] for a in keep), tuple(x.duals[a] for a in keep), x.charge, tuple(keys[a] for a in keep))(c)

        check_entries(fails, st, "squeeze", entries3(lambda: x.squeeze(axis), lambda: sr.squeeze(x, axis), lambda: ar.do("squeeze", x, axis)), v)
    # expand_dims
    odd = [c for c in G.ALPHABET[sym] if c != e][0]
    for axis in list(range(n + 1)) + sorted({-1, -(n + 1), -2} - ({-2} if n == 0 else set())):
        pos = axis if axis >= 0 else axis + n + 1
        ref = np.expand_dims(X, pos)
        for c, dual in ((None, None), (None, True), (odd, False), (odd, True), (odd, None)):
            if dual is None:
                inh = x.duals[pos - 1] if pos > 0 else (x.duals[pos] if pos < n else False)
            else:
                inh = dual
            cc = e if c is None else c
            nfr = fr[:pos] + (((cc, 1),),) + fr[pos:]
            nduals = tuple(x.duals[:pos]) + (inh,) + tuple(x.duals[pos:])
            ncharge2 = G.combine(sym, x.charge, G.signed(sym, cc, inh))
            ver = arr_verify(sym, ref, nfr, nduals, ncharge2)
            if c is None and dual is None:
                check_entries(fails, st, "expand_dims", entries3(lambda: x.expand_dims(axis), lambda: sr.expand_dims(x, axis), lambda: ar.do("expand_dims", x, axis)), ver)
            else:
                check_entries(fails, st, "expand_dims[c,dual]", (("method", lambda: x.expand_dims(axis, c=c, dual=dual)),), ver)
    # scalars
    for s in (2.0, -0.5) + ((1 + 2j,) if "complex" in d["dtype"] else ()):
        check_entries(fails, st, "mul-scalar", (("method", lambda: x * s), ("rmul", lambda: s * x)), arr_verify(sym, X * s, fr, x.duals, x.charge, keys))
        check_entries(fails, st, "div-scalar", (("method", lambda: x / s),), arr_verify(sym, X / s, fr, x.duals, x.charge, keys))
    check_entries(fails, st, "neg", (("method", lambda: -x),), arr_verify(sym, -X, fr, x.duals, x.charge, keys))
    # reductions
    def scal(ref, tol=0.0):
        def v(c):
            val = c.item() if hasattr(c, "item") else c
            if tol:
                return [] if abs(val - ref) <= tol * max(1.0, abs(ref)) else [("value", f"{val!r} expected {ref!r}")]
            return [] if val == ref else [("value", f"{val!r} expected {ref!r}")]

        return v

    if x.blocks:
        check_entries(fails, st, "sum", entries3(lambda: x.sum(), lambda: sr.sum(x), lambda: ar.do("sum", x)), scal(X.sum()))
        check_entries(fails, st, "norm", (("method", lambda: x.norm()), ("symmray", lambda: sr.linalg.norm(x)), ("autoray", lambda: ar.do("linalg.norm", x))),
                      scal(float(np.linalg.norm(X.ravel())), 1e-12))
        # elementwise (zero preserving on stored blocks): compared on the stored sectors
        for fname in ("abs", "sqrt"):
            src = {s_: getattr(np, fname)(np.asarray(b)) for s_, b in x.blocks.items()}

            def v(c, src=src):
                if set(c.blocks) != set(src):
                    return [("sectors", "stored sectors changed")]
                return [] if all(exact_equal(c.blocks[k], src[k]) for k in src) else [("value", "blockwise value differs")]

            check_entries(fails, st, fname, entries3(lambda: getattr(x, fname)(), lambda: getattr(sr, fname)(x), lambda: ar.do(fname, x)), v)
    # multiply_diagonal
    for axis in range(n):
        table = fr[axis]
        for missing in [None] + [c for c, _ in table]:
            vb = {}
            t0 = 3
            for c, dd in table:
                if c != missing:
                    vb[c] = np.arange(t0, t0 + dd, dtype=X.dtype) * 2 + 1
                t0 += dd
            v = sr.BlockVector(vb)
            V = embed_vector(v, table) if vb else np.zeros(sum(dd for _, dd in table), dtype=X.dtype)
            shape = [1] * n
            shape[axis] = -1
            ref = X * V.reshape(shape)
            if not vb:
                continue
            check_entries(fails, st, "multiply_diagonal",
                          entries3(lambda: x.multiply_diagonal(v, axis), lambda: sr.multiply_diagonal(x, v, axis), lambda: ar.do("multiply_diagonal", x, v, axis)),
                          arr_verify(sym, ref, fr, x.duals, x.charge))
    # complex diagonal on a real array: plain type promotion, the dense product is complex
    if n >= 1 and "complex" not in d["dtype"] and x.blocks:
        table = fr[0]
        vb, t0 = {}, 2
        for c, dd in table:
            vb[c] = (np.arange(t0, t0 + dd) * (1 + 2j)).astype(np.complex128)
            t0 += dd
        v = sr.BlockVector(vb)
        V = embed_vector(v, table)
        shape = [1] * n
        shape[0] = -1
        check_entries(fails, st, "multiply_diagonal[complex-vector]",
                      entries3(lambda: x.multiply_diagonal(v, 0), lambda: sr.multiply_diagonal(x, v, 0), lambda: ar.do("multiply_diagonal", x, v, 0)),
                      arr_verify(sym, X * V.reshape(shape), fr, x.duals, x.charge))
    # an array whose blocks have mixed element types: first stored block real, the others complex (a + b with real a, sparse complex b)
    if len(x.blocks) >= 2 and "complex" not in d["dtype"]:
        try:
            bcomp = x * (0.5 + 1.5j)
            del bcomp.blocks[next(iter(x.blocks))]
            m = x + bcomp
        except Exception:
            m = None
        if m is not None:
            M = embed(m, fr, dtype=np.complex128)
            cduals_m = tuple(not dd for dd in m.duals)
            check_entries(fails, st, "conj[mixed-dtype]", entries3(lambda: m.conj(), lambda: sr.conj(m), lambda: ar.do("conj", m)),
                          arr_verify(sym, np.conj(M), fr, cduals_m, G.neg(sym, m.charge)))
            check_entries(fails, st, "dagger[mixed-dtype]", (("method", lambda: m.dagger()), ("H", lambda: m.H)),
                          arr_verify(sym, np.conj(M).transpose(rev), tuple(fr[p] for p in rev), tuple(cduals_m[p] for p in rev), G.neg(sym, m.charge)))
            check_entries(fails, st, "sum[mixed-dtype]", (("method", lambda: m.sum()),), scal(M.sum()))
            check_entries(fails, st, "norm[mixed-dtype]", (("method", lambda: m.norm()),), scal(float(np.linalg.norm(M.ravel())), 1e-12))
            check_entries(fails, st, "mul-scalar[mixed-dtype]", (("method", lambda: m * 2.0),), arr_verify(sym, M * 2.0, fr, m.duals, m.charge))
    # binary with a second operand of independent sparsity
    nontrivial = False
    if b_d is not None:
        y = build(b_d)
        Y = embed(y, fr)
        nontrivial = set(x.blocks) != set(y.blocks) and len(x.blocks) >= 1 and len(y.blocks) >= 1
        check_entries(fails, st, "add", (("method", lambda: x + y),), arr_verify(sym, X + Y, fr, x.duals, x.charge))
        check_entries(fails, st, "sub", (("method", lambda: x - y),), arr_verify(sym, X - Y, fr, x.duals, x.charge))
        check_entries(fails, st, "mul", (("method", lambda: x * y), ("commuted", lambda: y * x)), arr_verify(sym, X * Y, fr, x.duals, x.charge))
        inplace_binary(sym, x, y, X, Y, fr, fails, st)
    return fails, nontrivial


def inplace_binary(sym, x, y, X, Y, fr, fails, st):
    """augmented assignment on a library copy of the left operand"""
    import operator as op

    def aug(f):
        def run():
            z = x.copy()
            return f(z, y)

        return run

    check_entries(fails, st, "iadd", (("method", aug(op.iadd)),), arr_verify(sym, X + Y, fr, x.duals, x.charge))
    check_entries(fails, st, "isub", (("method", aug(op.isub)),), arr_verify(sym, X - Y, fr, x.duals, x.charge))
    check_entries(fails, st, "imul", (("method", aug(op.imul)),), arr_verify(sym, X * Y, fr, x.duals, x.charge))
    check_entries(fails, st, "imul-scalar", (("method", lambda: op.imul(x.copy(), 3.0)),), arr_verify(sym, X * 3.0, fr, x.duals, x.charge))
    check_entries(fails, st, "itruediv-scalar", (("method", lambda: op.itruediv(x.copy(), 4.0)),), arr_verify(sym, X / 4.0, fr, x.duals, x.charge))


def second_operands(d):
    """same structure, independent stored-sector subsets, different tags"""
    from ..arrays import sparsity_patterns, duals_of, tables_of

    valid = G.valid_sectors(d["sym"], tables_of(d["indices"]), duals_of(d["indices"]), d["charge"])
    pats = sparsity_patterns(valid, "le1" if len(valid) > 3 else "all")
    for p in pats:
        yield dict(d, sectors=tuple(p), fill=("perm", 500, 3))


# --------------------------------------------------------------------------- #
# block vectors


def vector_failures(sym, table, stored_a, stored_b, dtype, st=None):
    import autoray as ar
    import symmray as sr

    fails = []

    def mk(stored, t0):
        blocks = {}
        for c, dd in table:
            if c in stored:
                blocks[c] = (np.arange(t0, t0 + dd) + 1).astype(dtype) * (1 if "complex" not in dtype else (1 + 0.5j))
            t0 += dd + 1
        return sr.BlockVector(blocks)

    a, b = mk(stored_a, 1), mk(stored_b, 40)
    own = tuple((c, dd) for c, dd in table if c in stored_a)
    A_own = embed_vector(a, own)
    A, B = embed_vector(a, table), embed_vector(b, table)

    def vver(ref, frame):
        def v(c):
            if not isinstance(c, sr.BlockVector):
                return [("type", f"{type(c).__name__}")]
            try:
                got = embed_vector(c, frame)
            except (KeyError, ValueError) as e:
                return [("frame", repr(e))]
            if got.shape != ref.shape or not (np.array_equal(got, ref, equal_nan=True)):
                return [("value", "dense form differs")]
            return []

        return v

    # unary / scalar: compared on the stored sectors
    for fname, npf in (("abs", np.abs), ("sqrt", np.sqrt), ("isfinite", np.isfinite), ("log", np.log), ("log2", np.log2), ("log10", np.log10)):
        check_entries(fails, st, f"bv.{fname}", entries3(lambda: getattr(a, fname)(), lambda: getattr(sr, fname)(a), lambda: ar.do(fname, a)), vver(npf(A_own), own))
    check_entries(fails, st, "bv.clip", entries3(lambda: a.clip(2, 5), lambda: sr.clip(a, 2, 5), lambda: ar.do("clip", a, 2, 5)),
                  vver(np.clip(A_own, 2, 5) if "complex" not in dtype else A_own, own)) if "complex" not in dtype else None
    for name, fn, ref in (
        ("bv.add-scalar", lambda: a + 2, A_own + 2), ("bv.radd-scalar", lambda: 2 + a, 2 + A_own),
        ("bv.sub-scalar", lambda: a - 2, A_own - 2), ("bv.rsub-scalar", lambda: 2 - a, 2 - A_own),
        ("bv.mul-scalar", lambda: a * 2, A_own * 2), ("bv.rmul-scalar", lambda: 2 * a, 2 * A_own),
        ("bv.div-scalar", lambda: a / 2, A_own / 2), ("bv.rdiv-scalar", lambda: 2 / a, 2 / A_own),
        ("bv.pow-scalar", lambda: a ** 2, A_own ** 2), ("bv.rpow-scalar", lambda: 2 ** a, 2 ** A_own),
        ("bv.neg", lambda: -a, -A_own),
    ):
        check_entries(fails, st, name, (("method", fn),), vver(ref, own))
    if stored_a:
        for name, entries, ref in (
            ("bv.sum", entries3(lambda: a.sum(), lambda: sr.sum(a), lambda: ar.do("sum", a)), A_own.sum()),
            ("bv.max", entries3(lambda: a.max(), lambda: sr.max(a), lambda: ar.do("max", a)), None if "complex" in dtype else A_own.max()),
            ("bv.min", entries3(lambda: a.min(), lambda: sr.min(a), lambda: ar.do("min", a)), None if "complex" in dtype else A_own.min()),
        ):
            if ref is None:
                continue
            check_entries(fails, st, name, entries, lambda c, ref=ref: [] if c == ref else [("value", f"{c!r} vs {ref!r}")])
        nr = float(np.linalg.norm(A_own))
        check_entries(fails, st, "bv.norm", (("method", lambda: a.norm()),), lambda c: [] if abs(c - nr) <= 1e-12 * max(1, nr) else [("value", f"{c} vs {nr}")])
    # vector-vector
    import operator as op

    check_entries(fails, st, "bv.iadd", (("method", lambda: op.iadd(a.copy(), b)),), vver(A + B, table))
    check_entries(fails, st, "bv.isub", (("method", lambda: op.isub(a.copy(), b)),), vver(A - B, table))
    check_entries(fails, st, "bv.imul", (("method", lambda: op.imul(a.copy(), b)),), vver(A * B, table))
    check_entries(fails, st, "bv.add", (("method", lambda: a + b),), vver(A + B, table))
    check_entries(fails, st, "bv.sub", (("method", lambda: a - b),), vver(A - B, table))
    check_entries(fails, st, "bv.mul", (("method", lambda: a * b), ("commuted", lambda: b * a)), vver(A * B, table))
    if set(stored_a) == set(stored_b):
        check_entries(fails, st, "bv.div", (("method", lambda: a / b),), vver(embed_vector(a, own) / embed_vector(b, own), own))
        check_entries(fails, st, "bv.pow", (("method", lambda: a ** b),), vver(embed_vector(a, own) ** embed_vector(b, own), own))
    else:
        # dividing by / raising to implicit zeros is not defined: anything returned is wrong unless it is the dense result
        with np.errstate(all="ignore"):
            check_entries(fails, st, "bv.div", (("method", lambda: a / b),), vver(A / B, table))
    return fails


def groups(ctx):
    out = []
    for sym in G.SYMS:
        for n in (0, 1, 2, 3):
            nch = {0: 1, 1: 1, 2: 2, 3: 8 if not ctx.thorough else 32}[n]
            for k in range(nch):
                out.append(("array", sym, n, k, nch))
        out.append(("vector", sym))
    return out


def run_group(ctx, group):
    st = Stats()
    reset_library_state()
    if group[0] == "vector":
        sym = group[1]
        al = G.ALPHABET[sym][:4]
        table = tuple((c, 1 + (i % 3)) for i, c in enumerate(sorted(al)))
        subsets = [s for r in range(0, len(al) + 1) for s in itertools.combinations(sorted(al), r)]
        for sa in subsets:
            for sb in subsets:
                for dtype in ("float64", "complex128"):
                    with np.errstate(all="ignore"):
                        fails = vector_failures(sym, table, sa, sb, dtype, st)
                    st.evaluations += 1
                    st.states += 1
                    st.traces += 1
                    if len(sa) >= 2 and set(sa) != set(sb):
                        st.nontrivial += 1
                    for sig, det in fails:
                        st.violation(sig, {"kind": "vector", "sym": sym, "table": table, "a": sa, "b": sb, "dtype": dtype}, det)
        st.sample({"vector_table": repr(table), "stored_a": repr(subsets[min(5, len(subsets) - 1)]), "stored_b": repr(subsets[-1])})
        return st
    _, sym, n, k, nch = group
    if n <= 2:
        menu, sp = "core", "all"
    else:
        menu, sp = ("core" if ctx.thorough else "m3"), "le1"
    for i, d in enumerate(U.arrays(sym, n, menu, "a", "all+empty" if n <= 1 else "all", sp, orders=("sorted", "reversed") if n <= 2 else ("sorted",))):
        if i % nch != k:
            continue
        if (i // nch) % 3 == ctx.seed % 3:
            d = dict(d, dtype="complex128")
        seconds = list(second_operands(d))
        # one second operand per array in rotation (all of them over the residue classes), all for small n
        use = seconds if n <= 2 else [seconds[(i // nch + ctx.seed) % len(seconds)]]
        for j, b_d in enumerate(use):
            b_d = dict(b_d, dtype=d["dtype"])
            with np.errstate(all="ignore"):
                fails, nontrivial = array_failures(d, b_d, st) if j == 0 else binary_only(d, b_d, st)
            st.evaluations += 1
            st.traces += 1
            st.nontrivial += int(nontrivial)
            for sig, det in fails:
                st.violation(sig, {"kind": "array", "x": d, "y": b_d, "binary_only": j != 0}, det)
        st.states += 1
        if len(d["sectors"]) >= 2 and not st.samples:
            st.sample({"x": describe(build(d)), "second_operand_sectors": [repr(s) for s in use[0]["sectors"]]})
    if n == 3 and not ctx.thorough:
        st.counters["capped"] += 1
        st.notes.append("n=3: one second operand (independent sparsity) per array per seed in quick; all in thorough")
    return st


def binary_only(d, b_d, st):
    import symmray as sr

    sym = d["sym"]
    x, y = build(d), build(b_d)
    fr = frame_of(x)
    X, Y = embed(x), embed(y, fr)
    fails = []
    check_entries(fails, st, "add", (("method", lambda: x + y),), arr_verify(sym, X + Y, fr, x.duals, x.charge))
    check_entries(fails, st, "sub", (("method", lambda: x - y),), arr_verify(sym, X - Y, fr, x.duals, x.charge))
    check_entries(fails, st, "mul", (("method", lambda: x * y), ("commuted", lambda: y * x)), arr_verify(sym, X * Y, fr, x.duals, x.charge))
    inplace_binary(sym, x, y, X, Y, fr, fails, st)
    return fails, set(x.blocks) != set(y.blocks) and bool(x.blocks) and bool(y.blocks)


def replay(ctx, case):
    with np.errstate(all="ignore"):
        if case["kind"] == "vector":
            return vector_failures(case["sym"], case["table"], case["a"], case["b"], case["dtype"])
        if case.get("binary_only"):
            return binary_only(case["x"], case["y"], None)[0]
        return array_failures(case["x"], case["y"])[0]
