"""C20 - element type and precision are preserved.

E-enum over dtypes x the operation catalogue x arrays whose sparsity forces
zero-block creation; every block of every result must have the operand's
dtype (its real counterpart where the mathematics says so), the value must
match the double-precision reference, and ComplexWarning is an error."""

import warnings

import numpy as np

from .. import groups as G
from .. import universe as U
from ..arrays import build, describe, structure_key
from ..audit import result_objects
from ..catalogue import ops_for
from ..runner import Stats, reset_library_state
from .c01 import family, vector_roots
from .c09 import arr_obs, obs_equal

PROP = "C20"
BUDGET = {"quick": 300, "thorough": 3000}
DTYPES = ("float32", "float64", "complex64", "complex128")
DEEP_TAGS = {"fuse", "reshape", "linalg", "contract"}
DEEP_NAMES = {"conj", "dagger", "sync_charges", "multiply_diagonal(v-missing,0)", "x*x", "expand_dims(0)", "copy;fill_missing_blocks", "phase_flip(0)", "align_axes(x,x.conj(),((0,),(0,)))"}
REAL_OF = {"float32": "float32", "float64": "float64", "complex64": "float32", "complex128": "float64"}
META = {
    "rule": "dtypes float32/float64/complex64/complex128 x arrays (abelian, fermionic with pending signs, block vectors; n<=3 plus (index, conjugate index) matrices with absent sectors; sparsity patterns with missing sectors) x every catalogue "
    "operation at depth 1 and, from arrays with n<=2, every core operation on every result of the structure-creating first operations (fuse, reshape, contraction, decompositions, conj/dagger, sync_charges, fill_missing_blocks, ...: depth 2 reaches unfuse / reshape-back / contraction of fused and truncated results); "
    "creation: random / utils.get_rand for every dtype x distribution x scale / offset form (python float, numpy scalars of either precision, 0-d array) must give blocks of the requested type; "
    "non-trivial = call on a single-precision or complex operand that returns at least one array block",
    "bounds": {"quick": "depth 1 all roots (n<=3 and 4-index arrays over the pair menu: the smallest arrays whose fused blocks can have holes), depth 2 from n<=2", "thorough": "depth 2 from all roots"},
    "assumptions": [
        "expected dtype: the operand's; its real counterpart for singular values, eigenvalues, abs, norm; bool for isfinite/all/any/allclose",
        "values are compared with the float64 / complex128 run of the same call (rel. tol 1e-4 single, 1e-9 double); decompositions are gauge dependent and compared by dtype only (values: C11/C12)",
        "complex fills have a non-zero imaginary part in every entry; numpy ComplexWarning is turned into an error during every call",
    ],
}

try:
    from numpy.exceptions import ComplexWarning
except Exception:  # pragma: no cover
    ComplexWarning = np.ComplexWarning


def expected_dtypes(op, dtype):
    """set of acceptable dtype names for array/vector blocks returned by op; None = any (not applicable)"""
    real = REAL_OF[dtype]
    nm = op.name
    if "isfinite" in nm:
        return {"bool"}
    if nm in ("abs", "sr.abs", "bv.abs", "sr.abs(bv)"):
        return {real}
    if "promote" in op.tags:
        return {"complex64" if dtype == "float32" else "complex128"}
    return {dtype, real} if ("linalg" in op.tags) else {dtype}


def block_dtypes(r):
    """[(where, dtype name)] for every block of every array / vector in r"""
    import symmray as sr

    out = []
    items = r if isinstance(r, (tuple, list)) else (r,)
    for k, o in enumerate(items):
        if isinstance(o, sr.AbelianArray):
            out += [(f"result[{k}] block {s}", str(np.asarray(b).dtype), "array") for s, b in o.blocks.items()]
        elif isinstance(o, sr.BlockVector):
            out += [(f"result[{k}] vector block {s}", str(np.asarray(b).dtype), "vector") for s, b in o.blocks.items()]
        elif isinstance(o, np.ndarray):
            out.append((f"result[{k}] ndarray", str(o.dtype), "dense"))
        elif isinstance(o, dict):
            out += [(f"result[{k}] params {s}", str(np.asarray(b).dtype), "array") for s, b in o.items()]
    return out


def scalar_dtype_ok(op, r, dtype):
    if isinstance(r, (bool, np.bool_)):
        return True
    if not isinstance(r, (np.generic, complex, float, int)):
        return True
    real = REAL_OF[dtype]
    if isinstance(r, np.generic):
        got = str(r.dtype)
        if got == "bool":
            return True
        if "norm" in op.name:
            return got == real
        if op.name in ("max", "min", "bv.max", "bv.min"):
            return got == dtype
        return got in (dtype, real) if "complex" not in dtype else (got == dtype or op.name in ("trace",) and got == dtype)
    # python scalars (item()): complex data must stay complex
    if "complex" in dtype and op.name in ("item",):
        return isinstance(r, complex)
    return True


def call_failures(op, x, xref, dtype, fails, st, where):
    try:
        with warnings.catch_warnings():
            warnings.simplefilter("ignore")
            warnings.simplefilter("error", ComplexWarning)
            with np.errstate(all="ignore"):
                r = op.fn(x)
    except ComplexWarning as e:
        fails.append((f"C20/{family(op)}/complex-warning", f"{where}: {op.name} on {dtype}: {e}"))
        return None
    except Exception as e:
        if st is not None:
            st.refuse(family(op), e)
        return None
    if st is not None:
        st.transitions += 1
    exp = expected_dtypes(op, dtype)
    real = REAL_OF[dtype]
    for loc, got, kind in block_dtypes(r):
        ok = got in exp
        if "linalg" in op.tags:
            # vectors of singular / eigen values: real counterpart; factors: the operand dtype
            ok = (got == real) if kind == "vector" else (got == dtype)
        if op.name == "to_dense" or kind == "dense":
            ok = got == dtype or (got == "bool" and "isfinite" in op.name)
        if not ok:
            fails.append((f"C20/{family(op)}/dtype", f"{where}: {op.name} on {dtype}: {loc} has dtype {got}"))
            break
    if not isinstance(r, (tuple, list)) and not scalar_dtype_ok(op, r, dtype):
        fails.append((f"C20/{family(op)}/scalar-dtype", f"{where}: {op.name} on {dtype}: scalar of type {type(r).__name__}/{getattr(r, 'dtype', '')}"))
    # value against the double precision reference
    if xref is not None and "linalg" not in op.tags:
        try:
            with warnings.catch_warnings():
                warnings.simplefilter("ignore")
                with np.errstate(all="ignore"):
                    rr = op.fn(xref)
            tol = 2e-4 if dtype in ("float32", "complex64") else 1e-9
            if not obs_equal(strip(arr_obs(r)), strip(arr_obs(rr)), tol):
                fails.append((f"C20/{family(op)}/value", f"{where}: {op.name} on {dtype}: value differs from the double precision reference"))
        except Exception:
            pass
    return r


def strip(o):
    """drop class names etc that do not matter; keep values"""
    return o


def recast(x, dtype):
    """harness copy of x with blocks cast to dtype"""
    from ..arrays import hcopy

    y = hcopy(x)
    for k in list(y._blocks):
        y._blocks[k] = np.asarray(y._blocks[k]).astype(dtype)
    return y


WARM_TAGS = {"fuse", "reshape", "contract", "linalg"}


def root_failures(d, dtype, st=None, deep=True, warm_only=False):
    import symmray as sr

    fails = []
    if isinstance(d, tuple) and d[0] == "vector":
        base = vector_roots(d[1])[d[2]]
        x = sr.BlockVector({k: (np.asarray(v) * ((1 + 0.5j) if "complex" in dtype else 1)).astype(dtype) for k, v in base.blocks.items()})
        xref = sr.BlockVector({k: np.asarray(v).astype("complex128" if "complex" in dtype else "float64") for k, v in x.blocks.items()})
    else:
        x = build(dict(d, dtype=dtype))
        xref = recast(x, "complex128" if "complex" in dtype else "float64")
    nontrivial = 0
    if not x.blocks:
        return fails, 0  # an array without blocks carries no element type
    for op in ops_for(x, "full"):
        if warm_only and not (op.tags & WARM_TAGS):
            continue  # first pass in double precision: only the operations that fill the fuse cache
        r = call_failures(op, x, xref, dtype, fails, st, "depth1")
        if st is not None:
            st.evaluations += 1
        if r is None:
            continue
        objs = result_objects(r)
        if objs and dtype != "float64":
            nontrivial += 1
        if not deep or not (op.tags & DEEP_TAGS or op.name in DEEP_NAMES):
            continue
        for j, o in enumerate(objs):
            if getattr(o, "ndim", 1) > 4 or not o.blocks:
                continue
            odt = str(np.asarray(next(iter(o.blocks.values()))).dtype)
            if odt not in DTYPES:
                continue
            oref = recast(o, "complex128" if "complex" in odt else "float64") if isinstance(o, sr.AbelianArray) else None
            for op2 in ops_for(o, "core"):
                call_failures(op2, o, oref, odt, fails, st, f"depth2 after {op.name}[{j}]")
                if st is not None:
                    st.evaluations += 1
    return fails, nontrivial


def roots(ctx, sym, ferm):
    out = []
    # n=4: the smallest arrays in which a fused block can have a *hole* (a sub-sector stored for one outer sector
    # and missing for another), i.e. where the strategies have to create zero blocks
    plans = [(0, "m3", "all", "all"), (1, "core", "all", "all"), (2, "m3", "all", "le1"), (3, "m2", "two", "probe"), (4, "m1", "two", "probe")]
    for n, menu, charges, sp in plans:
        kw = dict(ferm=True, phases="probe0", label=3) if ferm else {}
        for d in U.arrays(sym, n, menu, "a", charges, sp, **kw):
            out.append((n, d))
    # (index, conjugate index) matrices, also with absent sectors: eigh / solve / trace apply to the root itself
    kw = dict(ferm=True, phases="probe0", label=3) if ferm else {}
    for d in U.pair_arrays(sym, "two", "le1", **kw):
        out.append((2, d))
    return out


def groups(ctx):
    out = []
    for sym in G.SYMS:
        for ferm in (False, True):
            nch = 16 if not ctx.thorough else 48
            for k in range(nch):
                out.append((sym, ferm, k, nch))
        out.append((sym, "vector", 0, 1))
        out.append((sym, "create", 0, 1))
    return out


SCALARS = {
    "default": None,
    "python-float": 0.5,
    "numpy.float64": np.float64(0.5),
    "numpy.float32": np.float32(0.5),
    "numpy-0d": np.array(0.5),
}


def create_failures(sym, st=None):
    """random constructors: every block of the created array has the requested element type, whatever distribution and
    whatever form the scale / offset arguments take (python scalar, numpy scalars of either precision, 0-d array)"""
    import symmray as sr
    from ..arrays import get_class, make_index

    fails = []
    for ferm in (False, True):
        klass, kw = get_class(sym, ferm, "dyn")
        for indices in U.index_tuples(sym, 2, "m2", "a"):
            idx = [make_index(i) for i in indices]
            for dt in DTYPES:
                for dist in ("normal", "uniform"):
                    for sname, sc in SCALARS.items():
                        for which in ("scale", "loc"):
                            if sc is None and which == "loc":
                                continue
                            extra = {} if sc is None else {which: sc}
                            try:
                                x = klass.random([i for i in idx], seed=3, dtype=dt, dist=dist, **extra, **kw)
                            except Exception as e:
                                if st is not None:
                                    st.refuse("random", e)
                                continue
                            if st is not None:
                                st.evaluations += 1
                                st.transitions += 1
                            bad = sorted({str(np.asarray(b).dtype) for b in x.blocks.values()} - {dt})
                            if bad:
                                fails.append((f"C20/random[{which}={sname}]/dtype", f"{sym} {'fermionic' if ferm else 'abelian'} dtype={dt} dist={dist}: blocks of type {bad}"))
    # the helper in utils
    for dt in DTYPES:
        for sname, sc in SCALARS.items():
            if sym == "Z4":
                continue
            extra = {} if sc is None else {"scale": sc}
            try:
                x = sr.utils.get_rand(sym, (2, 3), seed=1, dtype=dt, **extra)
                bad = sorted({str(np.asarray(b).dtype) for b in x.blocks.values()} - {dt})
                if bad:
                    fails.append((f"C20/utils.get_rand[scale={sname}]/dtype", f"{sym} dtype={dt}: blocks of type {bad}"))
                if st is not None:
                    st.evaluations += 1
            except Exception as e:
                if st is not None:
                    st.refuse("utils.get_rand", e)
    return fails


def run_group(ctx, group):
    sym, ferm, k, nch = group
    st = Stats()
    reset_library_state()
    if ferm == "create":
        for sig, det in create_failures(sym, st):
            st.violation(sig, {"root": ("create", sym), "dtype": None}, det)
        st.states += 1
        st.traces += 1
        return st
    if ferm == "vector":
        for i in range(len(vector_roots(sym))):
            for dt in DTYPES:
                fails, nt = root_failures(("vector", sym, i), dt, st)
                st.states += 1
                st.traces += 1
                st.nontrivial += nt
                for sig, det in fails:
                    st.violation(sig, {"root": ("vector", sym, i), "dtype": dt}, det)
        return st
    for i, (n, d) in enumerate(roots(ctx, sym, ferm)):
        if i % nch != k:
            continue
        # every dtype on the small roots; rotate dtypes over the larger ones (all four over the residue classes)
        # n>=2: the same structure is first run in float64, then in another dtype within the same process, so a cached
        # fuse plan computed for double precision data is re-used for the other element type (call history)
        dts = DTYPES if n <= 1 else ("float64", ("float32", "complex64", "complex128")[(i // nch + ctx.seed) % 3])
        if n == 4:
            dts = ("float64", ("float32", "complex64")[(i // nch + ctx.seed) % 2])
        if n == 3:
            dts = (("float64", "complex64", "float32", "complex128")[(i // nch + ctx.seed) % 4],)
        if ctx.thorough:
            dts = DTYPES
        for di, dt in enumerate(dts):
            warm = (not ctx.thorough) and n >= 2 and di == 0 and len(dts) > 1
            fails, nt = root_failures(d, dt, st, deep=((ctx.thorough or n <= 2) and not warm), warm_only=warm)
            st.states += 1
            st.traces += 1
            st.nontrivial += nt
            for sig, det in fails:
                st.violation(sig, {"root": d, "dtype": dt}, det)
        if len(d["sectors"]) >= 2 and not st.samples:
            st.sample({"root": describe(build(d)), "dtypes": list(dts)})
    if not ctx.thorough:
        st.counters["capped"] += 1
        st.notes.append("quick: n=2 and n=4 roots run in float64 and then in one other dtype (rotating) within the same process, n=3 roots in one dtype; depth 2 from n<=2 only")
    return st


def replay(ctx, case):
    if isinstance(case["root"], (tuple, list)) and case["root"][0] == "create":
        return create_failures(case["root"][1])
    # replay with the history the explorer used: the same structure in double precision first
    if case["dtype"] != "float64" and not (isinstance(case["root"], tuple)):
        root_failures(case["root"], "float64", warm_only=True)
    return root_failures(case["root"], case["dtype"])[0]
