"""C01 - every result of every public operation is a valid symmetric array.

E-bfs: explicit-state breadth-first search over operation sequences on the
real objects.  States are canonicalised by structure only (validity does not
depend on block values; the library is data-oblivious); the invariant R-audit
(mc/audit.py) is evaluated on everything every transition returns."""

import collections

import numpy as np

from .. import groups as G
from .. import universe as U
from ..arrays import build, describe, structure_key
from ..audit import audit, audit_result, result_objects
from ..catalogue import find_op, ops_for
from ..runner import Stats, reset_library_state

PROP = "C01"
BUDGET = {"quick": 420, "thorough": 3600}
META = {
    "rule": "roots: arrays of all five symmetries (abelian and fermionic; dynamic class, static class, symmetry object) with n<=3 indices (plus 4-index arrays over the pair menu, the smallest whose fused blocks can have holes), every direction pattern, "
    "total charges, sparsity patterns, pending-sign tables and labels, plus block vectors; transitions: the whole operation catalogue (mc/catalogue.py: structure, "
    "fuse/unfuse/reshape, contraction with derived partners in both modes, einsum/trace, arithmetic, reductions, phase operations, qr/svd/svd_truncated/eigh/solve); "
    "every member of a returned tuple is a successor; states deduplicated by structure key (class, symmetry, charge, index tables incl. sub-index info, sectors with block "
    "shapes in order, sign table, labels). non-trivial = transition whose result carries sub-index info, dropped charges, pending signs or labels",
    "bounds": {"quick": "depth 2 complete from all roots (depth-2 expansion with the core menu); successor rank <= 5", "thorough": "depth 3 (state cap per root family reported)"},
    "assumptions": [
        "validity depends on structure only, so states with equal structure keys are merged (their successors are structurally identical by data obliviousness)",
        "an exception is a refusal, not a transition; invalid states (known findings) are not expanded",
    ],
}


def family(op):
    nm = op.name
    if "expand-odd" in op.tags:
        return "expand_dims(c=odd)"
    if "solve-odd-a" in op.tags:
        return "solve[fermionic,odd-a]"
    if "solve" in op.tags:
        return "solve"
    for ch in "([":
        if ch in nm:
            nm = nm.split(ch)[0]
    return nm


def roots(ctx, sym, ferm, cls):
    out = []
    plans = [(0, "m3", "all+empty", "all"), (1, "core", "all", "all"), (2, "m3", "all", "le1"), (3, "m2", "two", "probe"), (4, "m1", "one", "probe")]
    if cls != "dyn":
        plans = plans[:3] if cls == "static" else plans[1:2]
    for n, menu, charges, sp in plans:
        kw = dict(ferm=True, phases="probe0", label=3) if ferm else {}
        for d in U.arrays(sym, n, menu, "a", charges, sp, cls=cls, **kw):
            out.append(d)
    if cls == "dyn":
        # (index, conjugate index) matrices: eigh / solve / trace apply to the state itself
        kw = dict(ferm=True, phases="probe0", label=3) if ferm else {}
        out.extend(U.pair_arrays(sym, "two", "le1", cls=cls, **kw))
    return out


def groups(ctx):
    out = []
    for sym in G.SYMS:
        for ferm in (False, True):
            for cls in ("dyn", "static", "dynobj"):
                if cls == "static" and sym == "Z4":
                    continue
                nch = {"dyn": 12, "static": 4, "dynobj": 1}[cls]
                if ctx.thorough:
                    nch *= 4
                for k in range(nch):
                    out.append((sym, ferm, cls, k, nch))
        out.append((sym, "vector", None, 0, 1))
    return out


def nontrivial_state(o):
    import symmray as sr

    if not isinstance(o, sr.AbelianArray):
        return False
    if any(ix.subinfo is not None for ix in o.indices):
        return True
    if o.fermionic and (o.phases or o.oddpos):
        return True
    return False


def vector_roots(sym):
    import symmray as sr

    al = G.ALPHABET[sym][:3]
    out = []
    for r in range(1, len(al) + 1):
        out.append(sr.BlockVector({c: np.arange(1, 2 + k, dtype=float) for k, c in enumerate(al[:r])}))
    return out


def run_group(ctx, group):
    sym, ferm, cls, k, nch = group
    st = Stats()
    reset_library_state()
    depth_max = int(ctx.args.get("depth", 3 if ctx.thorough else 2))
    cap = int(ctx.args.get("cap", 60000 if ctx.thorough else 20000))
    seen = set()
    frontier = []
    if ferm == "vector":
        for v in vector_roots(sym):
            frontier.append((v, ("vector", sym, tuple(v.blocks)), ()))
    else:
        for i, d in enumerate(roots(ctx, sym, ferm, cls)):
            if i % nch != k:
                continue
            try:
                x = build(d)
            except Exception as e:
                st.violation(f"C01/construct/raised-{type(e).__name__}", {"root": d, "trace": ()}, str(e))
                continue
            errs = audit(x)
            st.evaluations += 1
            if errs:
                for kind, det in errs:
                    st.violation(f"C01/construct/{kind}", {"root": d, "trace": ()}, det)
                continue
            key = structure_key(x)
            if key in seen:
                continue
            seen.add(key)
            st.add_state(key)
            frontier.append((x, d, ()))
    capped = False
    for depth in range(1, depth_max + 1):
        new = []
        level = "full" if depth == 1 else "core"
        for x, root, trace in frontier:
            try:
                ops = ops_for(x, level)
            except Exception as e:
                st.violation(f"C01/catalogue/raised-{type(e).__name__}", {"root": root, "trace": trace}, str(e))
                continue
            for op in ops:
                try:
                    with np.errstate(all="ignore"):
                        r = op.fn(x)
                except Exception as e:
                    st.refuse(family(op), e)
                    continue
                st.transitions += 1
                st.evaluations += 1
                st.traces += 1
                errs = audit_result(r)
                step = trace + ((op.name, 0),)
                if errs:
                    for kind, det in errs:
                        st.violation(f"C01/{family(op)}/{kind}", {"root": root, "trace": step}, f"after {[t[0] for t in step]}: {det}")
                    continue
                for j, o in enumerate(result_objects(r)):
                    if getattr(o, "ndim", 1) > 5:
                        continue
                    key = structure_key(o)
                    if key in seen:
                        continue
                    seen.add(key)
                    st.add_state(key)
                    if nontrivial_state(o):
                        st.nontrivial += 1
                    if depth < depth_max:
                        if len(seen) > cap:
                            capped = True
                            continue
                        new.append((o, root, trace + ((op.name, j),)))
        if new and depth == depth_max - 1 and not st.samples:
            o, root, tr = new[len(new) // 2]
            st.sample({"root": describe(build(root)) if isinstance(root, dict) else repr(root), "trace": [t[0] for t in tr], "state": describe(o)})
        frontier = new
        st.tiers_done[f"depth{depth}"] += 1
    if capped:
        st.counters["capped"] += 1
        st.notes.append(f"state cap {cap} per root family reached: deepest level partially expanded")
    return st


def replay(ctx, case):
    root, trace = case["root"], case["trace"]
    fails = []
    try:
        x = build(root)
    except Exception as e:
        return [(f"C01/construct/raised-{type(e).__name__}", str(e))]
    for kind, det in audit(x):
        fails.append((f"C01/construct/{kind}", det))
    if fails:
        return fails
    for name, j in trace:
        level = "full"
        op = find_op(x, name, level)
        with np.errstate(all="ignore"):
            r = op.fn(x)
        errs = audit_result(r)
        if errs:
            return [(f"C01/{family(op)}/{kind}", det) for kind, det in errs]
        x = result_objects(r)[j]
    return []
