"""C06 - contraction commutes with fusing, and all contraction strategies agree.

E-enum over contractible pairs (abelian and fermionic, independent sparsity on
both operands): (i) fused == blockwise == auto as arrays; (ii) align, fuse the
contracted axes on both operands (both fuse strategies), contract the single
pair == direct; (iii) fusing the free legs before the contraction == direct
(compared after unfusing), and the leg fused beforehand is still fused on the
result."""

import itertools

import numpy as np

from .. import groups as G
from .. import universe as U
from ..arrays import build, describe, embed, exact_equal, index_key, index_plain_key, oddpos_key
from ..runner import Stats, reset_library_state
from .c02 import free_frame

PROP = "C06"
BUDGET = {"quick": 400, "thorough": 3600}

# (n_a, n_b, ncon, menu_a, menu_b, charges, sp_a, sp_b, perms, axes, nchunks)
PLANS = {
    "quick": [
        (1, 1, 1, "core", "core", "all", "all", "all", "all", "all", 1),
        (2, 1, 1, "m3", "m3", "all", "le1", "all", "all", "all", 2),
        (1, 2, 1, "m3", "m3", "all", "all", "le1", "all", "all", 2),
        (2, 2, 1, "m3", "m3", "all", "probe", "probe", "all", "all", 8),
        (2, 2, 2, "m3", "m3", "all", "le1", "probe", "all", "all", 8),
        (3, 2, 1, "m2", "m2", "two", "probe", "probe0", "some", "some", 8),
        (3, 2, 2, "m2", "m2", "two", "probe", "probe", "some", "all", 12),
        (3, 3, 2, "m2", "m1", "two", "probe0", "probe0", "some", "some", 12),
        (3, 3, 3, "m2", "m2", "two", "probe", "probe0", "some", "some", 12),
        # four-index operands: two free and two contracted legs (the contracted group is not the leading fuse group)
        (4, 2, 2, "m1", "m1", "two", "probe", "probe0", "all", "some", 4),
        (4, 3, 2, "m1", "m1", "one", "probe", "probe0", "some", "some", 8),
    ],
}
PLANS["thorough"] = PLANS["quick"] + [
    (2, 2, 1, "core", "m3", "all", "le1", "le1", "all", "all", 32),
    (2, 2, 2, "core", "m3", "all", "le1", "le1", "all", "all", 32),
    (3, 2, 2, "m3", "m3", "two", "le1", "probe", "all", "all", 64),
    (3, 3, 2, "m3", "m2", "two", "probe", "probe", "some", "some", 64),
    (3, 3, 3, "m3", "m2", "two", "probe", "probe", "some", "all", 64),
    (4, 2, 2, "m1", "m1", "two", "le1", "le1", "all", "all", 32),
]

META = {
    "rule": "pairs (a, b, axes) with >=1 contracted pair from the C02/C03 universe (independent sparsity and block order on the two operands, every axis placement), abelian and "
    "fermionic (even / odd with labels, pending signs); per pair: 3 direct modes, align+fuse+contract with fuse strategies insert/concat x 2 modes, free legs fused beforehand x 2 modes. "
    "non-trivial = the operands' stored contracted sub-sectors differ (alignment drops something) or >=2 contracted axes",
    "bounds": {"quick": "PLANS['quick'] (<=3 indices per operand; 4-index first operands with 2 free + 2 contracted legs over the pair menu)", "thorough": "PLANS['thorough']"},
    "assumptions": [
        "exact integer tags; values compared through the harness embedding into the operands' tables (fermionic: pending signs applied by the harness)",
        "fusing free legs before / after the contraction is compared after unfusing, because the fused tables legitimately hold different sub-sectors when present sectors differ",
        "contracting explicitly fused but un-aligned operands is outside the statement and not exercised",
    ],
}


class _SkipConj(Exception):
    pass


def as_obs(sym, c, frame, dtype):
    """(kind tuple, value) of a result"""
    import symmray as sr

    if not isinstance(c, sr.AbelianArray):
        return ("scalar",), np.asarray(c.item() if hasattr(c, "item") else c)
    return (
        ("array", c.ndim, c.charge, tuple(c.duals), oddpos_key(c) if c.fermionic else None),
        embed(c, frame, dtype=dtype),
    )


def same(o1, o2):
    return o1[0] == o2[0] and exact_equal(o1[1], o2[1])


def pair_failures(a_d, b_d, axes_a, axes_b, st=None, light=False):
    """light: larger structures - the auto mode (same code path as fused), the conjugated pair and the concat strategy are
    only exercised on the smaller plans"""
    import symmray as sr

    sym, ferm = a_d["sym"], a_d["ferm"]
    a, b = build(a_d), build(b_d)
    fails = []
    frame = free_frame(a, b, axes_a, axes_b)
    axes = (tuple(axes_a), tuple(axes_b))
    dt = np.result_type(*[np.asarray(v).dtype for v in list(a.blocks.values()) + list(b.blocks.values())]) if (a.blocks or b.blocks) else np.float64
    results = {}

    def run(name, fn):
        try:
            c = fn()
            if st is not None:
                st.transitions += 1
            return c
        except Exception as e:
            fails.append((f"C06/{name}/raised-{type(e).__name__}", str(e)))
            return None

    # (i) strategies agree as arrays
    for mode in ("blockwise", "fused") + (() if light else ("auto",)):
        c = run(f"direct[{mode}]", lambda: sr.tensordot(a, b, axes, mode=mode, preserve_array=True))
        if c is not None:
            results[mode] = c
    ref = results.get("blockwise")
    if ref is None:
        return fails, False
    try:
        oref = as_obs(sym, ref, frame, dt)
    except (KeyError, ValueError) as e:
        return fails + [("C06/direct[blockwise]/frame", repr(e))], False
    for mode in ("fused", "auto"):
        c = results.get(mode)
        if c is None:
            continue
        try:
            o = as_obs(sym, c, frame, dt)
        except (KeyError, ValueError) as e:
            fails.append((f"C06/strategies/{mode}/frame", repr(e)))
            continue
        if o[0] != oref[0]:
            fails.append((f"C06/strategies/{mode}/rank-charge-directions-labels", f"{o[0]} vs blockwise {oref[0]}"))
        elif not exact_equal(o[1], oref[1]):
            fails.append((f"C06/strategies/{mode}/value", "differs from blockwise"))
        elif tuple(index_key(i) for i in c.indices) != tuple(index_key(i) for i in ref.indices):
            fails.append((f"C06/strategies/{mode}/indices", f"index tables differ from blockwise: {[dict(i.chargemap) for i in c.indices]} vs {[dict(i.chargemap) for i in ref.indices]}"))
    # (i') the conjugated pair, contracted after the direct calls (the operands' index objects are hashed by now)
    try:
        if light:
            raise _SkipConj()
        ac_, bc_ = a.conj(), b.conj()
        cb = run("conj-pair[blockwise]", lambda: sr.tensordot(ac_, bc_, axes, mode="blockwise", preserve_array=True))
        cf = run("conj-pair[fused]", lambda: sr.tensordot(ac_, bc_, axes, mode="fused", preserve_array=True))
        if cb is not None and cf is not None:
            ob, of = as_obs(sym, cb, frame, dt), as_obs(sym, cf, frame, dt)
            if ob[0] != of[0]:
                fails.append(("C06/conj-pair/fused/rank-charge-directions-labels", f"{of[0]} vs blockwise {ob[0]}"))
            elif not exact_equal(ob[1], of[1]):
                fails.append(("C06/conj-pair/fused/value", "contraction of the conjugated operands: fused differs from blockwise"))
            elif tuple(index_key(i) for i in cf.indices) != tuple(index_key(i) for i in cb.indices):
                fails.append(("C06/conj-pair/fused/indices", "contraction of the conjugated operands: index tables differ from blockwise"))
    except _SkipConj:
        pass
    except (KeyError, ValueError) as e:
        fails.append(("C06/conj-pair/frame", repr(e)))
    # (ii) align, fuse the contracted axes, contract the single pair
    ncon = len(axes_a)
    if ncon >= 1:
        al = run("align_axes", lambda: sr.align_axes(a, b, axes))
        if al is not None:
            a2, b2 = al
            pa, pb = min(axes_a), min(axes_b)
            strategies = (("insert",) if light else ("insert", "concat")) if not ferm else ("auto",)
            for strat in strategies:
                if ferm:
                    af = run("fuse-contracted[a]", lambda: a2.fuse(tuple(axes_a)))
                    bf = run("fuse-contracted[b]", lambda: b2.fuse(tuple(axes_b)))
                else:
                    af = run(f"fuse-contracted[a,{strat}]", lambda: a2.fuse(tuple(axes_a), mode=strat))
                    bf = run(f"fuse-contracted[b,{strat}]", lambda: b2.fuse(tuple(axes_b), mode=strat))
                if af is None or bf is None:
                    continue
                for mode in ("blockwise", "fused"):
                    c = run(f"via-fused-pair[{strat},{mode}]", lambda: sr.tensordot(af, bf, ((pa,), (pb,)), mode=mode, preserve_array=True))
                    if c is None:
                        continue
                    try:
                        o = as_obs(sym, c, frame, dt)
                    except (KeyError, ValueError) as e:
                        fails.append((f"C06/via-fused-pair/{mode}/frame", repr(e)))
                        continue
                    if not same(o, oref):
                        fails.append((f"C06/via-fused-pair/{mode}/{'value' if o[0] == oref[0] else 'structure'}",
                                      f"fuse strategy {strat}: contracting the fused pair differs from the direct contraction"))
    # (iii) free legs fused beforehand
    left = [i for i in range(a.ndim) if i not in axes_a]
    right = [i for i in range(b.ndim) if i not in axes_b]
    for side, x, free, con in (("a", a, left, axes_a), ("b", b, right, axes_b)):
        if len(free) < 2:
            continue
        xf = run(f"fuse-free[{side}]", lambda: x.fuse(tuple(free)))
        if xf is None:
            continue
        # axes of xf: the fused group sits at min(free); remaining (contracted) axes keep their relative order
        pos = min(free)
        others = [i for i in range(x.ndim) if i not in free]
        new_pos = {}
        k = 0
        for i in range(x.ndim):
            if i == pos:
                k += 1  # the group
            if i in others:
                new_pos[i] = k
                k += 1
        # recompute: axes before pos that are not free keep index; group at 'pos - (#free before pos = 0)'
        before = [i for i in range(pos) if i not in free]
        after = [i for i in range(pos, x.ndim) if i not in free]
        order = before + ["G"] + after
        new_pos = {ax: order.index(ax) for ax in others}
        con2 = tuple(new_pos[i] for i in con)
        for mode in ("blockwise", "fused"):
            if side == "a":
                c = run(f"prefused-free-leg/{mode}", lambda: sr.tensordot(xf, b, (con2, tuple(axes_b)), mode=mode, preserve_array=True))
                gpos = 0
            else:
                c = run(f"prefused-free-leg/{mode}", lambda: sr.tensordot(a, xf, (tuple(axes_a), con2), mode=mode, preserve_array=True))
                gpos = len(left)
            if c is None:
                continue
            want_rank = (1 + len(right)) if side == "a" else (len(left) + 1)
            if c.ndim != want_rank or c.indices[gpos].subinfo is None:
                fails.append((f"C06/prefused-free-leg/{mode}/rank", f"side {side}: the leg fused beforehand is not fused on the result (ndim {c.ndim}, expected {want_rank})"))
                continue
            try:
                cu = c.unfuse(gpos)
                o = as_obs(sym, cu, frame, dt)
            except Exception as e:
                fails.append((f"C06/prefused-free-leg/{mode}/unfuse-raised-{type(e).__name__}", str(e)))
                continue
            if not same(o, oref):
                fails.append((f"C06/prefused-free-leg/{mode}/{'value' if o[0] == oref[0] else 'structure'}",
                              f"side {side}: fusing the free legs before the contraction differs from the direct contraction (after unfusing)"))
    ka = {tuple(s[i] for i in axes_a) for s in a.blocks}
    kb = {tuple(s[i] for i in axes_b) for s in b.blocks}
    return fails, (ka != kb or ncon >= 2)


def label_variants(a_odd, b_odd):
    if a_odd and b_odd:
        return [(1, 2), (2, 1)]
    return [(1 if a_odd else None, 2 if b_odd else None)]


def groups(ctx):
    out = []
    for sym in G.SYMS:
        for ferm in (False, True):
            for pi, plan in enumerate(PLANS[ctx.tier]):
                for k in range(plan[-1]):
                    out.append((sym, ferm, pi, k))
    return out


def run_group(ctx, group):
    sym, ferm, pi, k = group
    st = Stats()
    reset_library_state()
    (n_a, n_b, ncon, menu_a, menu_b, charges, sp_a, sp_b, perms, axes, nchunks) = PLANS[ctx.tier][pi]
    kwa = dict(ferm=True, phases="probe0", label="A") if ferm else {}
    kwb = dict(ferm=True, phases="one", label="B") if ferm else {}
    idx = -1
    for a_d in U.arrays(sym, n_a, menu_a, "a", charges, sp_a, orders=("sorted",), **kwa):
        idx += 1
        if idx % nchunks != k:
            continue
        st.states += 1
        for axes_a in U.axes_choices(n_a, ncon, axes):
            for b_d, axes_b in U.partners(sym, a_d, axes_a, n_b - ncon, menu_b, "b", charges, sp_b, orders=("sorted", "reversed"),
                                           perms=perms, fill=("perm", 1000, ctx.seed), **kwb):
                lv = label_variants(a_d.get("oddpos") is not None, b_d.get("oddpos") is not None) if ferm else [(None, None)]
                for la, lb in lv:
                    a_use = dict(a_d, oddpos=la) if ferm else a_d
                    b_use = dict(b_d, oddpos=lb) if ferm else b_d
                    fails, nt = pair_failures(a_use, b_use, axes_a, axes_b, st, light=(pi >= 5 and not ctx.thorough))
                    st.evaluations += 1
                    st.traces += 1
                    st.nontrivial += int(nt)
                    for sig, det in fails:
                        st.violation(sig, {"a": a_use, "b": b_use, "axes_a": axes_a, "axes_b": axes_b}, det)
                    if st.evaluations == 11 and k == 0:
                        st.sample({"a": describe(build(a_use)), "b": describe(build(b_use)), "axes": [list(axes_a), list(axes_b)]})
    return st


def replay(ctx, case):
    return pair_failures(case["a"], case["b"], tuple(case["axes_a"]), tuple(case["axes_b"]))[0]
