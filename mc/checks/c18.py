"""C18 - local fermionic operator arrays reproduce the second-quantised operator.

E-enum against R-fock (Jordan-Wigner matrices): (A) elements for every short
operator string and every small basis; (B) arrays applied to unit state
tensors: the measured matrix must equal S.H.S for one diagonal sign matrix S
solved from a generic reference operator on the same bases."""

import itertools

import numpy as np

from .. import groups as G
from .. import ref_fock as RF
from ..runner import Stats, reset_library_state

PROP = "C18"
BUDGET = {"quick": 300, "thorough": 3000}
META = {
    "rule": "(A) every operator string of length 0 (the constant term) to 4 over 2 modes (341) as a single term x every basis layout (two one-mode sites with every subset/order of {|0>,|1>}; one two-mode site with every "
    "order of the four states x both operator orders in |11>, and every 2-/3-state subset), each also summed with every string of the same net effect (accumulation / cancellation) on four layouts; "
    "strings of length <=3 over 3 modes on three sites; spellings FermionicOperator / (label, '+'); (B) for Z2, U1 (spinless, spinful), Z2Z2, U1U1: build_local_fermionic_array for every "
    "charge-conserving normal-ordered string of length 2 and 4 over the site modes and the five model builders with several parameter sets, applied by tensordot to the unit state tensor of every "
    "basis state (every total charge). non-trivial = element or matrix entry with a -1 relative to the unsigned operator",
    "bounds": {"quick": "2 modes length<=4, 3 modes length<=3; arrays: 1-2 sites", "thorough": "+ 3-4 modes length<=4 on 2-3 sites"},
    "assumptions": [
        "Jordan-Wigner matrices with modes in sorted label order are the reference; tolerance 1e-12",
        "the sign convention S is solved from one generic connected charge-conserving reference operator per set of bases and must then work for every other operator (existence of one fixed convention, not which one)",
        "operators must conserve the symmetry's charge (others cannot be represented with charge zero and are not built)",
    ],
}

COEFF = [1.7, -0.6, 0.35, 2.25, -1.1, 0.8, 1.3, -0.45]


def fo(terms=None, bases=None, spell="obj"):
    """convert harness (label, dual) data to what the library accepts"""
    import symmray as sr

    def op(o):
        lab, d = o
        if spell == "obj":
            return sr.FermionicOperator(lab, d)
        return (lab, "+" if d else "-")

    if terms is not None:
        return [(c, [op(o) for o in t]) for c, t in terms]
    return [[tuple(op(o) for o in stt) for stt in b] for b in bases]


def strings(modes, maxlen):
    syms = [(m, d) for m in modes for d in (True, False)]
    # length 0 is the constant term c * 1
    for n in range(0, maxlen + 1):
        yield from itertools.product(syms, repeat=n)


def net_effect(s, modes):
    return tuple(sum((1 if d else -1) for (m, d) in s if m == mm) for mm in modes)


def one_mode_bases(m):
    e, o = (), ((m, True),)
    return [[e], [o], [e, o], [o, e]]


def two_mode_bases(m1, m2):
    e, a, b = (), ((m1, True),), ((m2, True),)
    out = []
    for both in (((m1, True), (m2, True)), ((m2, True), (m1, True))):
        states = [e, a, b, both]
        for perm in itertools.permutations(states):
            out.append(list(perm))
        for r in (2, 3):
            for sub in itertools.combinations(states, r):
                out.append(list(sub))
    # drop exact duplicates (subsets not containing |11> appear twice)
    uniq = []
    for b in out:
        if b not in uniq:
            uniq.append(b)
    return uniq


def element_failures(terms, bases, spell, st=None):
    import symmray as sr

    try:
        got = sr.build_local_fermionic_elements(fo(terms=terms, spell=spell), fo(bases=bases, spell=spell))
    except Exception as e:
        return [(f"C18/elements/raised-{type(e).__name__}", str(e))], False
    if st is not None:
        st.transitions += 1
    got = {k: v for k, v in got.items() if abs(v) > 1e-14}
    ref = RF.elements_ref(terms, bases)
    if set(got) != set(ref):
        return [("C18/elements/support", f"non-zero elements at {sorted(set(got) ^ set(ref))[:4]} differ")], False
    for k in ref:
        if abs(got[k] - ref[k]) > 1e-12:
            return [("C18/elements/value", f"element {k}: {got[k]} expected {ref[k]}")], False
    # non-trivial: some element carries a sign relative to the absolute coefficients
    nt = any(v < 0 for v in ref.values()) if all(c > 0 for c, _ in terms) else bool(ref)
    return [], nt


# --------------------------------------------------------------------------- #
# (B) arrays


def mode_charge(sym, spin):
    """charge carried by one fermion of the given species under the documented maps"""
    if sym in ("Z2", "U1"):
        return 1
    return (1, 0) if spin == "u" else (0, 1)


def site_setup(sym, kind, nsites):
    """modes per site, bases, index maps for the documented layouts"""
    from symmray.fermionic_local_operators import get_spinful_charge_indexmap, get_spinless_charge_indexmap

    names = "abc"[:nsites]
    if kind == "spinless":
        modes = [[(nm, "")] for nm in names]
        bases = [[(), ((nm,) and ((nm, True),))] for nm in names]
        bases = [[(), ((nm, True),)] for nm in names]
        maps = [list(get_spinless_charge_indexmap(sym)) for _ in names]
        qs = {nm: mode_charge(sym, "") for nm in names}
    elif kind == "spinful":
        bases = [[(), ((nm + "d", True),), ((nm + "u", True),), ((nm + "u", True), (nm + "d", True))] for nm in names]
        maps = [list(get_spinful_charge_indexmap(sym)) for _ in names]
        qs = {}
        for nm in names:
            qs[nm + "u"] = mode_charge(sym, "u")
            qs[nm + "d"] = mode_charge(sym, "d")
    elif kind in ("three-mode", "three-mode-b"):
        # one site carrying three modes, its eight occupation states listed in a scrambled order (so that the positions of
        # one charge on the dense axis are unevenly spaced); charge of a state = number (U1) / parity (Z2) of occupied modes
        a, b, c = ("a", True), ("b", True), ("c", True)
        if kind == "three-mode":
            order = [(a, b), (), (a,), (a, b, c), (b,), (a, c), (b, c), (c,)]
        else:
            order = [(a,), (), (b,), (a, b), (c,), (a, c), (b, c), (a, b, c)]
        bases = [[tuple(stt) for stt in order]]
        maps = [[(len(stt) % 2) if sym == "Z2" else len(stt) for stt in order]]
        qs = {"a": 1, "b": 1, "c": 1}
    else:  # spinful without double occupancy (incomplete basis)
        bases = [[(), ((nm + "d", True),), ((nm + "u", True),)] for nm in names]
        maps = [list(get_spinful_charge_indexmap(sym))[:3] for _ in names]
        qs = {}
        for nm in names:
            qs[nm + "u"] = mode_charge(sym, "u")
            qs[nm + "d"] = mode_charge(sym, "d")
    return bases, maps, qs


def conserving_strings(sym, qs):
    """normal-ordered strings x+ y- and x+ y+ z- w- (and, where the group allows, pair creation / annihilation) that conserve the charge"""
    modes = sorted(qs)
    e = G.identity(sym)

    def total(cre, ann):
        return G.combine(sym, *([qs[m] for m in cre] + [G.neg(sym, qs[m]) for m in ann]))

    out = []
    for x in modes:
        for y in modes:
            if total([x], [y]) == e:
                out.append(((x, True), (y, False)))
    for x, y in itertools.combinations(modes, 2):
        if total([x, y], []) == e:
            out.append(((x, True), (y, True)))
            out.append(((y, False), (x, False)))
        for z, w in itertools.combinations(modes, 2):
            if total([x, y], [z, w]) == e:
                out.append(((x, True), (y, True), (w, False), (z, False)))
    return out


def applied_matrix(Garr, bases, maps, sym):
    """matrix of psi -> tensordot(G, psi) on the unit state tensors, read in the original basis order"""
    import symmray as sr

    n = len(bases)
    idxs = list(itertools.product(*[range(len(b)) for b in bases]))
    pos = []
    for m in maps:
        order = sorted(range(len(m)), key=lambda i: (m[i], i))
        pos.append({i: p for p, i in enumerate(order)})
    N = len(idxs)
    M = np.zeros((N, N), dtype=complex)
    shape = tuple(len(b) for b in bases)
    klass = getattr(sr, sym + "FermionicArray")
    for c, r in enumerate(idxs):
        d = np.zeros(shape)
        d[r] = 1.0
        charge = G.combine(sym, *[maps[k][r[k]] for k in range(n)])
        psi = klass.from_dense(d, maps, duals=[False] * n, charge=charge, oddpos=1)
        phi = sr.tensordot(Garr, psi, axes=[tuple(range(n, 2 * n)), tuple(range(n))], preserve_array=True)
        if not phi.blocks:
            continue
        phi = phi.phase_sync()
        # harness embedding of phi into the full ket tables of G
        tables = [sorted(ix.chargemap.items()) for ix in Garr.indices[:n]]
        offs = []
        for t in tables:
            o, p = {}, 0
            for ch, dd in t:
                o[ch] = p
                p += dd
            offs.append(o)
        dense = np.zeros([sum(dd for _, dd in t) for t in tables], dtype=complex)
        for sec, blk in phi.blocks.items():
            sl = tuple(slice(offs[k][ch], offs[k][ch] + np.shape(blk)[k]) for k, ch in enumerate(sec))
            dense[sl] = blk
        for rr, l in enumerate(idxs):
            M[rr, c] = dense[tuple(pos[k][l[k]] for k in range(n))]
    return M, idxs


def solve_signs(MR, HR):
    """S with MR = S HR S on the support graph of HR; returns (S, component ids) or raises ValueError"""
    N = HR.shape[0]
    S = np.zeros(N)
    comp = -np.ones(N, dtype=int)
    nc = 0
    for root in range(N):
        if comp[root] >= 0:
            continue
        S[root] = 1.0
        comp[root] = nc
        stack = [root]
        while stack:
            u = stack.pop()
            for v in range(N):
                h = HR[u, v] if abs(HR[u, v]) > 1e-9 else (np.conj(HR[v, u]) if abs(HR[v, u]) > 1e-9 else 0)
                if h == 0:
                    continue
                m = MR[u, v] if abs(HR[u, v]) > 1e-9 else np.conj(MR[v, u])
                ratio = m / h
                if abs(abs(ratio) - 1) > 1e-9 or abs(ratio.imag) > 1e-9:
                    raise ValueError(f"entry ({u},{v}): measured {m} vs true {h} are not related by a sign")
                sgn = S[u] * np.sign(ratio.real)
                if comp[v] < 0:
                    comp[v] = nc
                    S[v] = sgn
                    stack.append(v)
                elif S[v] != sgn:
                    raise ValueError(f"no consistent diagonal sign convention: cycle through ({u},{v})")
        nc += 1
    if np.any(np.abs(MR - (S[:, None] * HR * S[None, :])) > 1e-9):
        raise ValueError("reference operator itself is not reproduced by S.H.S")
    return S, comp


def array_case_failures(sym, kind, nsites, st=None):
    import symmray as sr

    fails = []
    bases, maps, qs = site_setup(sym, kind, nsites)
    strs = conserving_strings(sym, qs)
    ref_terms = [(COEFF[k % len(COEFF)] * (1 + 0.01 * k), list(s)) for k, s in enumerate(strs)]

    def build(terms):
        return sr.build_local_fermionic_array(fo(terms=terms), fo(bases=bases), sym, maps)

    try:
        GR = build(ref_terms)
        MR, idxs = applied_matrix(GR, bases, maps, sym)
    except Exception as e:
        return [(f"C18/arrays/reference-raised-{type(e).__name__}", f"{sym} {kind} {nsites}: {e}")], 0
    HR, _ = RF.true_matrix(ref_terms, bases)
    try:
        S, comp = solve_signs(MR, HR)
    except ValueError as e:
        return [("C18/arrays/no-sign-convention", f"{sym} {kind} {nsites} sites: {e}")], 0
    nontrivial = 0
    complete = kind != "nodouble"

    def check(name, terms, Garr=None):
        nonlocal nontrivial
        try:
            Ga = Garr if Garr is not None else build(terms)
            M, _ = applied_matrix(Ga, bases, maps, sym)
        except Exception as e:
            fails.append((f"C18/{name}/raised-{type(e).__name__}", f"{sym} {kind}: {e}"))
            return None
        if st is not None:
            st.transitions += len(idxs)
            st.evaluations += 1
            st.traces += 1
        H, _ = RF.true_matrix(terms, bases)
        # entries between different components of the reference graph cannot be predicted; they must be absent in H
        cross = (comp[:, None] != comp[None, :]) & (np.abs(H) > 1e-9)
        if cross.any():
            fails.append((f"C18/{name}/harness-unresolved-components", f"{sym} {kind}"))
            return None
        want = S[:, None] * H * S[None, :]
        if np.any(np.abs(M - want) > 1e-9):
            k = np.unravel_index(np.argmax(np.abs(M - want)), M.shape)
            fails.append((f"C18/{name}/matrix", f"{sym} {kind} {nsites} sites: entry {idxs[k[0]]},{idxs[k[1]]}: measured {M[k]} expected {want[k]} (one fixed sign convention)"))
        if np.any(np.abs(want - H) > 1e-9):
            nontrivial += 1
        return M

    # every conserving string alone, and hermitised
    for k, s in enumerate(strs):
        check("string", [(COEFF[k % 8], list(s))])
        herm = [(COEFF[k % 8], list(s)), (COEFF[k % 8], [(m, not d) for m, d in reversed(s)])]
        M = check("hermitian", herm)
        if M is not None:
            if np.any(np.abs(M - M.conj().T) > 1e-9):
                fails.append(("C18/hermitian/not-hermitian", f"{sym} {kind}: {s}"))
            else:
                H, _ = RF.true_matrix(herm, bases)
                if not np.allclose(np.linalg.eigvalsh(M), np.linalg.eigvalsh(H), atol=1e-9):
                    fails.append(("C18/hermitian/spectrum", f"{sym} {kind}: {s}"))
    # the empty string (a constant c * 1): alone, as an energy shift of a Hermitian term set, and as a factor
    check("constant", [(0.37, [])])
    for k, s in enumerate(strs[:4]):
        herm = [(COEFF[k % 8], list(s)), (COEFF[k % 8], [(m, not d) for m, d in reversed(s)]), (-1.3, [])]
        M = check("shifted-hermitian", herm)
        if M is not None:
            H, _ = RF.true_matrix(herm, bases)
            if np.any(np.abs(M - M.conj().T) > 1e-9) or not np.allclose(np.linalg.eigvalsh(M), np.linalg.eigvalsh(H), atol=1e-9):
                fails.append(("C18/shifted-hermitian/spectrum", f"{sym} {kind}: {s} - 1.3"))
    # coefficient types: complex amplitudes in a Hermitian term set, and integers next to fractions (python and numpy)
    for k, s in enumerate(strs[:6]):
        sd = [(m, not d) for m, d in reversed(s)]
        if sd == list(s):
            continue  # self-adjoint string: its coefficient has to be real
        c = COEFF[k % 8] * (0.8 + 0.6j)
        herm = [(c, list(s)), (c.conjugate(), sd)]
        M = check("complex-hermitian", herm)
        if M is not None:
            H, _ = RF.true_matrix(herm, bases)
            if np.any(np.abs(M - M.conj().T) > 1e-9) or not np.allclose(np.linalg.eigvalsh(M), np.linalg.eigvalsh(H), atol=1e-9):
                fails.append(("C18/complex-hermitian/spectrum", f"{sym} {kind}: {s} with amplitude {c}"))
    if len(strs) >= 3:
        for first in (1, np.int64(2), np.float32(1.5)):
            check(f"coefficient-types[{type(first).__name__}-first]", [(first, list(strs[0])), (0.5, list(strs[1])), (-0.75, list(strs[2]))])
    # products of operator arrays (complete bases only)
    if complete:
        menu = [()] + list(strs[:: max(1, len(strs) // 6)][:6])
        for s1, s2 in itertools.product(menu, repeat=2):
            t1, t2 = [(1.3, list(s1))], [(-0.7, list(s2))]
            t12 = [(1.3 * -0.7, list(s1) + list(s2))]
            try:
                G1, G2, G12 = build(t1), build(t2), build(t12)
                M1, _ = applied_matrix(G1, bases, maps, sym)
                M2, _ = applied_matrix(G2, bases, maps, sym)
                M12, _ = applied_matrix(G12, bases, maps, sym)
                if st is not None:
                    st.transitions += 3 * len(idxs)
                    st.evaluations += 1
                if np.any(np.abs(M1 @ M2 - M12) > 1e-9):
                    fails.append(("C18/product/matrix", f"{sym} {kind}: applying {s2} then {s1} differs from applying the product operator"))
            except Exception as e:
                fails.append((f"C18/product/raised-{type(e).__name__}", str(e)))
    # model builders
    if nsites == 2 and kind == "spinless" and sym in ("Z2", "U1"):
        for (t, V, mu, coord) in ((1.0, 8.0, 0.0, (1, 1)), (0.7, 1.3, 0.4, (2, 3)), (1.1, -0.5, (0.3, -0.9), (1, 4))):
            mua, mub = mu if isinstance(mu, tuple) else (mu, mu)
            terms = [(-t, [("a", True), ("b", False)]), (-t, [("b", True), ("a", False)]),
                     (V, [("a", True), ("a", False), ("b", True), ("b", False)]),
                     (-mua / coord[0], [("a", True), ("a", False)]), (-mub / coord[1], [("b", True), ("b", False)])]
            try:
                Ga = sr.fermi_hubbard_spinless_local_array(sym, t=t, V=V, mu=mu, coordinations=coord)
                check("fermi_hubbard_spinless_local_array", terms, Ga)
            except Exception as e:
                fails.append((f"C18/fermi_hubbard_spinless_local_array/raised-{type(e).__name__}", str(e)))
    if nsites == 2 and kind == "spinful":
        for (t, U, mu, coord) in ((1.0, 8.0, 0.0, (1, 1)), (0.7, (1.3, 2.1), 0.4, (2, 3)), (1.1, 3.0, (0.3, -0.9), (4, 1))):
            Ua, Ub = U if isinstance(U, tuple) else (U, U)
            mua, mub = mu if isinstance(mu, tuple) else (mu, mu)
            terms = []
            for sp in "ud":
                terms += [(-t, [("a" + sp, True), ("b" + sp, False)]), (-t, [("b" + sp, True), ("a" + sp, False)])]
                terms += [(-mua / coord[0], [("a" + sp, True), ("a" + sp, False)]), (-mub / coord[1], [("b" + sp, True), ("b" + sp, False)])]
            terms += [(Ua / coord[0], [("au", True), ("au", False), ("ad", True), ("ad", False)]), (Ub / coord[1], [("bu", True), ("bu", False), ("bd", True), ("bd", False)])]
            try:
                Ga = sr.fermi_hubbard_local_array(sym, t=t, U=U, mu=mu, coordinations=coord)
                check("fermi_hubbard_local_array", terms, Ga)
            except Exception as e:
                fails.append((f"C18/fermi_hubbard_local_array/raised-{type(e).__name__}", str(e)))
    if nsites == 1 and kind == "spinless" and sym in ("Z2", "U1"):
        try:
            check("fermi_number_operator_spinless_local_array", [(1, [("a", True), ("a", False)])], sr.fermi_number_operator_spinless_local_array(sym))
        except Exception as e:
            fails.append((f"C18/fermi_number_operator_spinless_local_array/raised-{type(e).__name__}", str(e)))
    if nsites == 1 and kind == "spinful":
        try:
            check("fermi_number_operator_spinful_local_array", [(1, [("au", True), ("au", False)]), (1, [("ad", True), ("ad", False)])], sr.fermi_number_operator_spinful_local_array(sym))
            check("fermi_spin_operator_local_array", [(0.5, [("au", True), ("au", False)]), (-0.5, [("ad", True), ("ad", False)])], sr.fermi_spin_operator_local_array(sym))
        except Exception as e:
            fails.append((f"C18/number-spin-operators/raised-{type(e).__name__}", str(e)))
    return fails, nontrivial


def groups(ctx):
    out = []
    for k in range(16):
        out.append(("elements2", k, 16))
    for k in range(8):
        out.append(("pairs2", k, 8))
    for k in range(4):
        out.append(("elements3", k, 4))
    if ctx.thorough:
        for k in range(32):
            out.append(("elements4", k, 32))
    for sym in ("Z2", "U1", "Z2Z2", "U1U1"):
        for kind in ("spinless", "spinful", "nodouble"):
            if kind == "spinless" and sym not in ("Z2", "U1"):
                continue
            for nsites in (1, 2):
                out.append(("arrays", sym, kind, nsites))
    for sym in ("Z2", "U1"):
        for kind in ("three-mode", "three-mode-b"):
            out.append(("arrays", sym, kind, 1))
    return out


def layouts2():
    """basis layouts over modes a, b"""
    out = []
    for ba in one_mode_bases("a"):
        for bb in one_mode_bases("b"):
            out.append([ba, bb])
    for b in two_mode_bases("a", "b"):
        out.append([b])
    return out


def run_group(ctx, group):
    st = Stats()
    reset_library_state()
    kind = group[0]
    if kind == "elements2":
        _, k, nch = group
        lays = layouts2()
        for i, s in enumerate(strings(["a", "b"], 4)):
            if i % nch != k:
                continue
            for j, bases in enumerate(lays):
                terms = [(COEFF[(i + j) % 8], list(s))]
                fails, nt = element_failures(terms, bases, "obj" if (i + j) % 2 else "tuple", st)
                st.evaluations += 1
                st.states += 1
                st.traces += 1
                st.nontrivial += int(nt)
                for sig, det in fails:
                    st.violation(sig, {"kind": "elements", "terms": terms, "bases": bases}, det)
        st.sample({"term": repr(list(strings(["a", "b"], 4))[77]), "bases": repr(lays[20])})
    elif kind == "pairs2":
        _, k, nch = group
        modes = ["a", "b"]
        allst = list(strings(modes, 4))
        by_net = {}
        for s in allst:
            by_net.setdefault(net_effect(s, modes), []).append(s)
        lays = [layouts2()[i] for i in (10, 15, 16, 40)]
        i = 0
        for net, lst in sorted(by_net.items()):
            for s1, s2 in itertools.combinations(lst, 2):
                i += 1
                if i % nch != k:
                    continue
                for bases in lays:
                    terms = [(1.7, list(s1)), (-0.6, list(s2))]
                    fails, nt = element_failures(terms, bases, "obj", st)
                    st.evaluations += 1
                    st.states += 1
                    st.traces += 1
                    st.nontrivial += int(nt)
                    for sig, det in fails:
                        st.violation(sig, {"kind": "elements", "terms": terms, "bases": bases}, det)
    elif kind in ("elements3", "elements4"):
        _, k, nch = group
        modes = ["a", "b", "c"] if kind == "elements3" else ["a", "b", "c", "d"]
        maxlen = 3 if kind == "elements3" else 4
        if kind == "elements3":
            lays = [[[(), ((m, True),)] for m in modes], [[((m, True),), ()] for m in modes],
                    [[(), (("a", True),)], two_mode_bases("b", "c")[0]], [two_mode_bases("a", "b")[30], [(), (("c", True),)]]]
        else:
            lays = [[two_mode_bases("a", "b")[0], two_mode_bases("c", "d")[25]], [[(), ((m, True),)] for m in modes[:3]] + [[(("d", True),), ()]]]
        for i, s in enumerate(strings(modes, maxlen)):
            if i % nch != k:
                continue
            for j, bases in enumerate(lays):
                terms = [(COEFF[(i + j) % 8], list(s))]
                fails, nt = element_failures(terms, bases, "obj", st)
                st.evaluations += 1
                st.states += 1
                st.traces += 1
                st.nontrivial += int(nt)
                for sig, det in fails:
                    st.violation(sig, {"kind": "elements", "terms": terms, "bases": bases}, det)
    else:
        _, sym, bkind, nsites = group
        fails, nt = array_case_failures(sym, bkind, nsites, st)
        st.states += 1
        st.nontrivial += nt
        for sig, det in fails:
            st.violation(sig, {"kind": "arrays", "sym": sym, "bkind": bkind, "nsites": nsites}, det)
        st.sample({"arrays": [sym, bkind, nsites]})
    return st


def replay(ctx, case):
    if case["kind"] == "elements":
        return element_failures(case["terms"], case["bases"], "obj")[0]
    return array_case_failures(case["sym"], case["bkind"], case["nsites"])[0]
