"""C13 - truncated SVD keeps exactly what its cutoff and bond limit prescribe.

E-enum with designed spectra: matrices are assembled blockwise as
U diag(s) V^H with known singular values; every cutoff mode x every decision
interval of the cutoff x every bond limit x every absorb option is run on the
real svd_truncated and compared with the reference rule R-trunc."""

import itertools

import numpy as np

from .. import groups as G
from ..arrays import arrd, build, describe, embed, frame_of, ixd
from ..audit import audit
from ..runner import Stats, reset_library_state

PROP = "C13"
BUDGET = {"quick": 300, "thorough": 3000}
META = {
    "rule": "matrices with designed singular values spread over 1-3 charges (seven spectra menus, two of them with exact zeros: a charge whose only block is exactly zero and a rank-deficient block, + a tie menu) x 4 direction patterns x even / odd total charge x abelian / fermionic "
    "(pending signs) x real / complex x block shapes tall / wide / square, also with the row or column index already fused (matrices that come from a fuse); for each: six cutoff modes x cutoffs at half the first threshold, every midpoint between consecutive decision "
    "thresholds and 1.5x / 10x beyond the last x max_bond in {-1, 1..rank+1}; no-cutoff runs for every max_bond; absorb in {None,-1,0,1,'left','both','right'}. "
    "non-trivial = run in which at least one value is discarded and at least one kept",
    "bounds": {"quick": "all five symmetries, alphabets' first three column charges", "thorough": "same + permuted charge assignment of the spectra"},
    "assumptions": [
        "the designed singular values are the truth (cross-checked against numpy's svd of the dense embedding, rel 1e-9)",
        "cutoffs sit at midpoints between decision thresholds, never on one; rel. tolerance 1e-8 on kept values / errors",
        "when the rule permits no value, keeping none or keeping only the largest are both accepted; tie spectra only assert 'every kept >= every discarded'",
    ],
}

SPECTRA = [
    ("one", [[5.0, 2.0, 0.3]]),
    ("two", [[5.0, 2.0, 0.3], [4.0, 1.0]]),
    ("three", [[5.0, 2.0, 0.3], [4.0, 1.0], [3.0, 0.1]]),
    ("scales", [[1.0, 0.5], [0.75, 0.25, 0.05]]),
    ("single-values", [[2.5], [1.5], [0.5]]),
    # exact zeros: a charge whose only block is exactly zero (shape r x 1 / 1 x r / 1 x 1), and a rank-deficient block
    ("zero-block", [[5.0, 2.0, 0.3], [0.0]]),
    ("rank-deficient", [[3.0, 0.0], [1.0]]),
]
TIES = ("ties", [[2.0, 2.0, 1.0], [2.0, 1.0]])
POWER = {3: 2, 4: 2, 5: 1, 6: 1}


def matrix_desc(sym, ferm, spectra, duals, charge, seed, dtype, shape_kind, phases):
    al = sorted(G.ALPHABET[sym])
    cols = al[: len(spectra)]
    spec = {c: tuple(s) for c, s in zip(cols, spectra)}
    rt, ct, sectors = {}, {}, []
    for k, (c1, sv) in enumerate(spec.items()):
        r = len(sv)
        m, n = {"tall": (r + 1, r), "wide": (r, r + 1), "square": (r, r)}[shape_kind]
        t = G.combine(sym, charge, G.neg(sym, G.signed(sym, c1, duals[1])))
        c0 = G.signed(sym, t, duals[0])
        if c0 in rt and rt[c0] != m:
            m = rt[c0]
            if m < r:
                return None
        rt[c0] = m
        ct[c1] = n
        sectors.append((c0, c1))
    if len({s[0] for s in sectors}) != len(sectors):
        # two column charges would need the same row charge: impossible for a group, defensive
        return None
    odd = G.parity(sym, charge) == 1
    kw = {}
    if ferm:
        kw = dict(ferm=True, phases=tuple(sorted(sectors)[::2]) if phases else (), oddpos=(3 if odd else None))
    return arrd(sym, (ixd(rt, duals[0]), ixd(ct, duals[1])), charge, tuple(sorted(sectors)), dtype=dtype,
                fill=("spectra", seed, tuple(sorted(spec.items()))), **kw)


def ref_keep_count(allv, cutoff, mode, max_bond):
    """number of values the rule keeps (from the largest); None when no cutoff"""
    s = np.array(sorted(allv))
    if mode == 1:
        keep = int((s >= cutoff).sum())
    elif mode == 2:
        keep = int((s >= cutoff * s[-1]).sum())
    else:
        p = POWER[mode]
        cum = np.cumsum(s ** p)
        thr = cutoff * (cum[-1] if mode in (4, 6) else 1.0)
        keep = int((cum >= thr).sum())
    if max_bond > 0:
        keep = min(keep, max_bond)
    return keep


def cutoff_menu(allv, mode):
    s = np.array(sorted(allv))
    if mode == 1:
        ths = list(s)
    elif mode == 2:
        ths = list(s / s[-1])
    else:
        p = POWER[mode]
        cum = np.cumsum(s ** p)
        ths = list(cum / (cum[-1] if mode in (4, 6) else 1.0))
    ths = sorted(set(ths))
    menu = [ths[0] * 0.5] + [(a + b) / 2 for a, b in zip(ths, ths[1:])] + [ths[-1] * 1.5, ths[-1] * 10]
    # a cutoff of exactly 0 means "no cutoff" (different rule, checked separately): only positive cutoffs here
    return [c for c in menu if c > 0]


def kept_values(s):
    if s is None or not s.blocks:
        return np.zeros(0)
    return np.sort(np.concatenate([np.asarray(v, dtype=float) for v in s.blocks.values()]))


def factor_audit(x, U, s, VH, what, out):
    for kind, det in audit(U) + audit(VH):
        out.append((f"invalid-factor-{kind}", f"{what}: {det}"))
    for nm, f in (("U", U), ("VH", VH), ("s", s)):
        if f is not None and not all(np.all(np.isfinite(np.asarray(b))) for b in f.blocks.values()):
            out.append(("non-finite-factor", f"{what}: {nm} holds NaN / inf"))
    # a valid array can be used: densified, synchronised, multiplied through every entry point
    if U.indices[1].chargemap:  # (nothing kept: the bond is empty, there is no dense form to ask for)
        for nm, f in (("U", U), ("VH", VH)):
            try:
                f.to_dense()
                if f.fermionic:
                    f.phase_sync()
            except Exception as ex:
                out.append((f"factor-unusable-{type(ex).__name__}", f"{what}: {nm}.to_dense() / phase_sync(): {ex}"))
        try:
            U @ VH
        except Exception as ex:
            out.append((f"factor-unusable-{type(ex).__name__}", f"{what}: U @ VH: {ex}"))
    bl, br = U.indices[1], VH.indices[0]
    if dict(bl.chargemap) != dict(br.chargemap):
        out.append(("bond-tables-differ", f"{what}: {dict(bl.chargemap)} vs {dict(br.chargemap)}"))
    if bool(bl.dual) == bool(br.dual):
        out.append(("bond-directions", what))
    if s is not None:
        if set(s.blocks) != set(bl.chargemap):
            out.append(("s-charges", f"{what}: s has {sorted(s.blocks)} bond has {sorted(bl.chargemap)}"))
        else:
            for c, v in s.blocks.items():
                if np.shape(v) != (bl.chargemap[c],):
                    out.append(("s-size", f"{what}: charge {c}"))
    used_u = {sec[1] for sec in U.blocks}
    used_v = {sec[0] for sec in VH.blocks}
    if used_u != set(bl.chargemap) or used_v != set(br.chargemap):
        out.append(("emptied-charge-not-removed", f"{what}: bond {sorted(bl.chargemap)} U uses {sorted(used_u)} VH uses {sorted(used_v)}"))


def product(U, s, VH, frame, dtype):
    import symmray as sr

    a = U if s is None else U.multiply_diagonal(s, 1)
    return embed(sr.tensordot(a, VH, 1), frame, dtype=dtype)


def matrix_failures(d, ties=False, st=None, prefuse=None):
    import autoray as ar
    import symmray as sr

    out = []
    x = build(d)
    if prefuse == "col":
        # same values, but the column index is a fused index (carries sub-index info of a singleton)
        x = x.expand_dims(2).fuse((1, 2))
    elif prefuse == "row":
        x = x.expand_dims(0).fuse((0, 1))
    X = embed(x)
    fr = frame_of(x)
    spec = dict(d["fill"][2])
    allv = sorted(v for c, sv in spec.items() for v in sv)
    rank = len(allv)
    tot2 = float(np.sum(np.array(allv) ** 2))
    dense = np.sort(np.linalg.svd(X, compute_uv=False))[::-1][:rank][::-1]
    if not np.allclose(dense, allv, rtol=1e-9, atol=1e-9):
        return [("harness/designed-spectrum-mismatch", f"{dense} vs {allv}")], 0
    nontrivial = 0

    def call(**kw):
        r = sr.linalg.svd_truncated(x, **kw)
        if st is not None:
            st.transitions += 1
            st.evaluations += 1
            st.traces += 1
        return r

    # ---- positive cutoff
    for mode in range(1, 7):
        prev = None
        for cutoff in cutoff_menu(allv, mode):
            for max_bond in [-1] + list(range(1, rank + 2)):
                what = f"mode={mode} cutoff={cutoff:.6g} max_bond={max_bond}"
                try:
                    U, s, VH = call(cutoff=cutoff, cutoff_mode=mode, max_bond=max_bond, absorb=None)
                except Exception as ex:
                    out.append((f"cutoff/raised-{type(ex).__name__}", f"{what}: {ex}"))
                    continue
                kept = kept_values(s)
                nk = len(kept)
                rk = ref_keep_count(allv, cutoff, mode, max_bond)
                exp = np.array(allv[rank - rk :]) if rk else np.zeros(0)
                factor_audit(x, U, s, VH, what, out)
                disc = sorted(set(np.round(allv, 12)) - set(np.round(kept, 12))) if not ties else None
                if ties:
                    # only: every kept >= every discarded
                    rest = list(allv)
                    for v in kept:
                        k = int(np.argmin(np.abs(np.array(rest) - v)))
                        rest.pop(k)
                    if len(kept) and len(rest) and kept.min() < max(rest) - 1e-9:
                        out.append(("ties/kept-smaller-than-discarded", f"{what}: kept {kept} discarded {rest}"))
                    continue
                ok = nk == len(exp) and np.allclose(kept, exp, rtol=1e-8, atol=1e-10)
                if not ok and rk == 0 and nk == 1 and abs(kept[0] - allv[-1]) < 1e-8:
                    ok = True  # latitude: keeping only the largest when the rule permits none
                if not ok:
                    out.append((f"cutoff/mode{mode}/kept-values", f"{what}: kept {kept} expected {exp}"))
                if nk and disc and kept.min() < max(disc) - 1e-9:
                    out.append((f"cutoff/mode{mode}/kept-smaller-than-discarded", f"{what}: kept {kept}"))
                if max_bond == -1:
                    if prev is not None and nk > prev:
                        out.append((f"cutoff/mode{mode}/not-monotone", f"{what}: keeps {nk} values, the smaller cutoff before kept {prev}"))
                    prev = nk
                if 0 < nk < rank:
                    nontrivial += 1
                # reconstruction error = discarded weight
                try:
                    P = product(U, s, VH, fr, X.dtype)
                    err2 = float(np.sum(np.abs(P - X) ** 2))
                    want = tot2 - float(np.sum(kept ** 2))
                    if abs(err2 - want) > 1e-8 * max(1.0, tot2):
                        out.append((f"cutoff/mode{mode}/reconstruction-error", f"{what}: |x-UsV|^2={err2} discarded weight={want}"))
                except Exception as ex:
                    out.append((f"cutoff/product-raised-{type(ex).__name__}", f"{what}: {ex}"))
            if ties:
                continue
    if ties:
        return out, nontrivial
    # ---- no cutoff: bond limit split across charges
    for cutoff in (-1.0, 0.0):
        for max_bond in [-1] + list(range(1, rank + 2)):
            what = f"cutoff={cutoff} max_bond={max_bond}"
            try:
                U, s, VH = call(cutoff=cutoff, max_bond=max_bond, absorb=None)
            except Exception as ex:
                out.append((f"nocutoff/raised-{type(ex).__name__}", f"{what}: {ex}"))
                continue
            kept = kept_values(s)
            want_n = rank if max_bond < 0 else min(max_bond, rank)
            factor_audit(x, U, s, VH, what, out)
            if len(kept) != want_n:
                out.append(("nocutoff/bond-dimension", f"{what}: kept {len(kept)} values, expected {want_n}"))
            for c, v in s.blocks.items():
                full = np.sort(np.array(spec[c]))[::-1]
                v = np.asarray(v, dtype=float)
                if not np.allclose(v, full[: len(v)], rtol=1e-8, atol=1e-10):
                    out.append(("nocutoff/not-largest-within-charge", f"{what}: charge {c} kept {v} of {full}"))
            if 0 < len(kept) < rank:
                nontrivial += 1
            # absorb variants give the same product
            try:
                P0 = product(U, s, VH, fr, X.dtype)
                for ab in (-1, 0, 1, "left", "both", "right"):
                    r = call(cutoff=cutoff, max_bond=max_bond, absorb=ab)
                    U2, s2, V2 = r
                    if s2 is not None:
                        out.append(("absorb/returns-s", f"{what} absorb={ab}"))
                    factor_audit(x, U2, None, V2, f"{what} absorb={ab}", out)
                    P = product(U2, None, V2, fr, X.dtype)
                    if not np.allclose(P, P0, rtol=1e-9, atol=1e-9 * max(1.0, float(np.max(np.abs(P0))) if P0.size else 1.0)):
                        out.append(("absorb/product-differs", f"{what} absorb={ab}"))
                if max_bond in (-1, 2):
                    r = ar.do("svd_truncated", x, cutoff=cutoff, max_bond=max_bond, absorb=None)
                    if not np.allclose(kept_values(r[1]), kept):
                        out.append(("autoray/differs", what))
            except Exception as ex:
                out.append((f"absorb/raised-{type(ex).__name__}", f"{what}: {ex}"))
    # absorb with a positive cutoff (one per mode)
    for mode in range(1, 7):
        menu = cutoff_menu(allv, mode)
        cutoff = menu[len(menu) // 2]
        try:
            U, s, VH = call(cutoff=cutoff, cutoff_mode=mode, absorb=None)
            P0 = product(U, s, VH, fr, X.dtype)
            for ab in (-1, 0, 1):
                U2, _, V2 = call(cutoff=cutoff, cutoff_mode=mode, absorb=ab)
                P = product(U2, None, V2, fr, X.dtype)
                if not np.allclose(P, P0, rtol=1e-9, atol=1e-9):
                    out.append(("absorb/product-differs", f"mode={mode} cutoff={cutoff} absorb={ab}"))
        except Exception as ex:
            out.append((f"absorb/raised-{type(ex).__name__}", f"mode={mode}: {ex}"))
    return out, nontrivial


def cases(ctx, sym, ferm):
    e = G.identity(sym)
    odd = [c for c in G.ALPHABET[sym] if G.parity(sym, c) == 1][0]
    k = 0
    for (sname, spectra) in SPECTRA + [TIES]:
        for duals in itertools.product((False, True), repeat=2):
            for charge in (e, odd):
                k += 1
                dtype = ("float64", "complex128")[k % 2]
                shape_kind = ("tall", "wide", "square")[k % 3]
                d = matrix_desc(sym, ferm, spectra, duals, charge, ctx.seed * 1000 + k, dtype, shape_kind, phases=bool(k % 2))
                if d is not None:
                    yield sname, d
                if ctx.thorough:
                    d2 = matrix_desc(sym, ferm, spectra[::-1], duals, charge, ctx.seed * 1000 + k + 500, dtype, ("tall", "wide", "square")[(k + 1) % 3], phases=not bool(k % 2))
                    if d2 is not None:
                        yield sname, d2


def groups(ctx):
    out = []
    for sym in G.SYMS:
        for ferm in (False, True):
            for k in range(8):
                out.append((sym, ferm, k, 8))
    return out


def run_group(ctx, group):
    sym, ferm, k, nch = group
    st = Stats()
    reset_library_state()
    for i, (sname, d) in enumerate(cases(ctx, sym, ferm)):
        if i % nch != k:
            continue
        for prefuse in (None, ("col", "row")[i % 2]) if sname in ("two", "three") else (None,):
            fails, nt = matrix_failures(d, ties=(sname == "ties"), st=st, prefuse=prefuse)
            st.states += 1
            st.nontrivial += nt
            for kd, det in fails:
                st.violation(f"C13/{kd}", {"x": d, "ties": sname == "ties", "prefuse": prefuse}, det)
        if not st.samples:
            st.sample({"matrix": describe(build(d)), "designed_singular_values": repr(d["fill"][2])})
    return st


def replay(ctx, case):
    return [(f"C13/{kd}", det) for kd, det in matrix_failures(case["x"], ties=case["ties"], prefuse=case.get("prefuse"))[0]]
