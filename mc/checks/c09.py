"""C09 - lazily tracked fermionic signs are unobservable.

E-bfs on the product of a lazy run and its synchronised twin: every catalogue
operation is applied with identical arguments to an array with pending signs
and to the harness-made twin whose signs are multiplied in; the lazy branch is
never re-synchronised, so signs stay pending across several operations.  The
invariant (equal observations) is evaluated in every product state."""

import numpy as np

from .. import groups as G
from .. import universe as U
from ..arrays import build, describe, embed, exact_equal, hcopy, index_key, oddpos_key, structure_key
from ..audit import result_objects
from ..catalogue import find_op, ops_for
from ..runner import Stats, reset_library_state
from .c01 import family

PROP = "C09"
BUDGET = {"quick": 420, "thorough": 3600}
META = {
    "rule": "roots: fermionic arrays n<=3 and already-fused arrays that picked up pending signs after the fuse (all symmetries, every direction pattern, even and odd charge with a label, sparsity patterns) x pending-sign tables "
    "(every subset of the stored sectors for n<=2, probes for n=3), each paired with a harness-made synchronised twin; transitions: every catalogue operation on both "
    "members (raw-storage accessors get_params/set_params/apply_to_arrays excluded), plus mixed lazy/synced operand combinations for binary operations; decompositions are "
    "compared on gauge-invariant observables (factor structure, singular / eigen values, reconstructed product); alias probe: after every operation on a lazy array, the result is synchronised in place and the source "
    "observed, and the source is synchronised in place and the result observed (depth 1 in quick, every depth in thorough). non-trivial = product state whose lazy member still has pending signs",
    "bounds": {"quick": "depth 2 from every root (core menu at depth 2)", "thorough": "depth 3 under a reported state cap"},
    "assumptions": [
        "value of an array = harness embedding with the pending signs applied by the harness (never by phase_sync)",
        "decomposition factors are gauge dependent: compared through products / spectra with rel. tolerance 1e-9; all other comparisons use rel. tolerance 1e-12 (exact for the integer tags; states behind a decomposition hold floats)",
    ],
}

EXCLUDE_TAGS = {"params"}


def harness_sync(x):
    y = hcopy(x)
    for s, p in list(y._phases.items()):
        if p == -1 and s in y._blocks:
            y._blocks[s] = -y._blocks[s]
    y._phases = {}
    return y


def arr_obs(o):
    import symmray as sr

    if isinstance(o, sr.AbelianArray):
        return ("arr", type(o).__name__, o.charge, tuple(index_key(i) for i in o.indices), oddpos_key(o) if o.fermionic else None, embed(o))
    if isinstance(o, sr.BlockVector):
        return ("bv", {k: np.asarray(v) for k, v in o.blocks.items()})
    if isinstance(o, (tuple, list)):
        return ("tuple", tuple(arr_obs(p) for p in o))
    if isinstance(o, (np.ndarray, np.generic)):
        return ("nd", np.asarray(o))
    if isinstance(o, dict):
        return ("dict", {k: np.asarray(v) for k, v in o.items()})
    return ("py", o)


def obs_equal(a, b, tol=0.0):
    if a[0] != b[0]:
        return False
    k = a[0]
    if k == "arr":
        return a[1:5] == b[1:5] and arr_close(a[5], b[5], tol)
    if k in ("bv", "dict"):
        return set(a[1]) == set(b[1]) and all(arr_close(a[1][q], b[1][q], tol) for q in a[1])
    if k == "tuple":
        return len(a[1]) == len(b[1]) and all(obs_equal(p, q, tol) for p, q in zip(a[1], b[1]))
    if k == "nd":
        return arr_close(a[1], b[1], tol)
    x, y = a[1], b[1]
    try:
        if tol and isinstance(x, (float, complex, np.floating, np.complexfloating)):
            if x != x and y != y:
                return True
            return bool(abs(x - y) <= tol * max(1.0, abs(x)))
        return bool(x == y) or (x != x and y != y)
    except Exception:
        return False


def arr_close(p, q, tol):
    p, q = np.asarray(p), np.asarray(q)
    if p.shape != q.shape:
        return False
    if tol == 0.0 or p.dtype == bool or p.dtype == object:
        try:
            return bool(np.array_equal(p, q, equal_nan=True))
        except TypeError:
            return bool(np.array_equal(p, q))
    return bool(np.allclose(p, q, rtol=tol, atol=tol * max(1.0, float(np.max(np.abs(p))) if p.size else 1.0), equal_nan=True))


def linalg_obs(name, r):
    """gauge invariant observation of a decomposition result"""
    import symmray as sr

    items = [o for o in (r if isinstance(r, (tuple, list)) else (r,)) if o is not None]
    arrays = [o for o in items if isinstance(o, sr.AbelianArray)]
    vecs = [o for o in items if isinstance(o, sr.BlockVector)]
    struct = tuple((type(o).__name__, o.charge, tuple(index_key(i) for i in o.indices), tuple(sorted(o.blocks, key=repr))) for o in arrays)
    spectrum = tuple(sorted((repr(k), tuple(np.round(np.sort(np.abs(np.asarray(v))), 9))) for v_ in vecs for k, v in v_.blocks.items()))
    prod = None
    if "eigh" in name and len(arrays) == 1 and len(vecs) == 1:
        w, v = vecs[0], arrays[0]
        prod = embed(sr.tensordot(v.multiply_diagonal(w, 1), v.dagger(), 1))
    elif "solve" in name and len(arrays) == 1:
        prod = embed(arrays[0])
    elif len(arrays) == 2:
        a, b = arrays
        if vecs:
            a = a.multiply_diagonal(vecs[0], 1)
        prod = embed(sr.tensordot(a, b, 1))
    return ("linalg", struct, spectrum, prod)


def linalg_equal(a, b):
    if a[1] != b[1]:
        return False, "factor structure"
    if len(a[2]) != len(b[2]) or any(p[0] != q[0] or not np.allclose(p[1], q[1], rtol=1e-7, atol=1e-7) for p, q in zip(a[2], b[2])):
        return False, "spectrum"
    if (a[3] is None) != (b[3] is None):
        return False, "product"
    if a[3] is not None and not arr_close(a[3], b[3], 1e-9):
        return False, "reconstructed product / solution"
    return True, ""


def compare_op(op, L, S, fails, st, where):
    """apply op to both members; returns (rl, rs) or None"""
    out = []
    for member in (L, S):
        try:
            with np.errstate(all="ignore"):
                out.append(("ok", op.fn(member)))
        except Exception as e:
            out.append(("exc", e))
    (kl, rl), (ks, rs) = out
    if kl != ks:
        which = "lazy" if kl == "exc" else "synced"
        fails.append((f"C09/{family(op)}/raises-on-one-side", f"{where}: {op.name} raised only on the {which} copy: {(rl if kl == 'exc' else rs)!r}"))
        return None
    if kl == "exc":
        if st is not None:
            st.refuse(family(op), rl)
        return None
    if st is not None:
        st.transitions += 2
    try:
        if "linalg" in op.tags:
            ok, why = linalg_equal(linalg_obs(op.name, rl), linalg_obs(op.name, rs))
            if not ok:
                fails.append((f"C09/{family(op)}/differs", f"{where}: {op.name}: {why} differs between the lazy and the synchronised copy"))
        else:
            # integer tags compare exactly anyway (differences are >= 1); states derived from decompositions hold floats,
            # where summation order may differ in the last bit between the two branches
            tol = 1e-12
            if not obs_equal(arr_obs(rl), arr_obs(rs), tol):
                fails.append((f"C09/{family(op)}/differs", f"{where}: {op.name}: result differs between the lazy and the synchronised copy"))
    except Exception as e:
        fails.append((f"C09/{family(op)}/observation-raised-{type(e).__name__}", f"{where}: {op.name}: {e}"))
    return rl, rs


def alias_failures(op, L, S, rs, fails, st, where):
    """a program may keep an array and what it derived from it, and synchronise either of them in place at any time
    (by the property that never changes a value): the other one must still show what the synchronised run shows"""
    import symmray as sr

    if not L.phases:
        return
    try:
        # (1) synchronise the derived arrays in place, then look at the source
        Lc = hcopy(L)
        with np.errstate(all="ignore"):
            r = op.fn(Lc)
        kids = [o for o in result_objects(r) if isinstance(o, sr.FermionicArray) and o is not Lc]
        if not kids:
            return
        for o in kids:
            o.phase_sync(inplace=True)
        if st is not None:
            st.transitions += 1 + len(kids)
        if not obs_equal(arr_obs(Lc), arr_obs(S), 1e-12):
            fails.append((f"C09/{family(op)}/source-changed-by-sync-of-result", f"{where}: {op.name}: synchronising the result in place changed the value of the array it was derived from"))
        # (2) synchronise the source in place, then look at the derived arrays
        Lc = hcopy(L)
        with np.errstate(all="ignore"):
            r = op.fn(Lc)
        Lc.phase_sync(inplace=True)
        if st is not None:
            st.transitions += 2
        if "linalg" in op.tags:
            ok, why = linalg_equal(linalg_obs(op.name, r), linalg_obs(op.name, rs))
        else:
            ok, why = obs_equal(arr_obs(r), arr_obs(rs), 1e-12), "result"
        if not ok:
            fails.append((f"C09/{family(op)}/result-changed-by-sync-of-source", f"{where}: {op.name}: synchronising the source in place afterwards changed the {why}"))
    except Exception as e:
        fails.append((f"C09/{family(op)}/alias-probe-raised-{type(e).__name__}", f"{where}: {op.name}: {e}"))


def mixed_failures(L, S, fails, st):
    """binary operations with every lazy/synced combination of the two operands"""
    import symmray as sr

    n = L.ndim
    combos = [(a, b) for a in (("L", L), ("S", S)) for b in (("L", L), ("S", S))]
    binops = [
        ("x+y", lambda a, b: a + b.copy()),
        ("x-y", lambda a, b: a - b.copy()),
        ("x*y", lambda a, b: a * b.copy()),
        ("allclose", lambda a, b: a.allclose(b)),
    ]
    if n >= 1:
        binops += [
            (f"tensordot(x,y.conj(),{n})", lambda a, b: sr.tensordot(a, b.conj(), n, preserve_array=True)),
            ("tensordot(x.conj(),y,((0,),(0,)))[blockwise]", lambda a, b: sr.tensordot(a.conj(), b, ((0,), (0,)), mode="blockwise")),
            ("tensordot(x,y.dagger(),1)[fused]", lambda a, b: sr.tensordot(a, b.dagger(), 1, mode="fused")),
        ]
    if 1 <= n <= 2:
        binops.append(("x@y.dagger()", lambda a, b: a @ b.dagger()))
    for name, f in binops:
        ref = None
        for (na, a), (nb, b) in combos:
            try:
                with np.errstate(all="ignore"):
                    r = arr_obs(f(a, b))
            except Exception as e:
                r = ("exc", type(e).__name__)
            if st is not None:
                st.transitions += 1
            if ref is None:
                ref = r
            elif not (obs_equal(ref, r, 1e-12) if ref[0] != "exc" and r[0] != "exc" else ref == r):
                fails.append((f"C09/mixed:{name.split('(')[0]}/differs", f"{name}: operands ({na},{nb}) give a different result than (L,L)"))


def sync_laws(L, S, fails, st):
    """phase_sync is idempotent, leaves the value unchanged, clears the table"""
    try:
        T = harness_sync(L)
        y = L.phase_sync()
        if st is not None:
            st.transitions += 1
        if y.phases:
            fails.append(("C09/phase_sync/table-not-cleared", f"{y.phases}"))
        if not obs_equal(arr_obs(y), arr_obs(T), 1e-12) or set(y.blocks) != set(T.blocks) or not all(exact_equal(y.blocks[k], T.blocks[k]) for k in T.blocks):
            fails.append(("C09/phase_sync/value-changed", "phase_sync changed the value or did not apply each sign exactly once"))
        z = y.phase_sync()
        if not all(exact_equal(z.blocks[k], y.blocks[k]) for k in y.blocks) or z.phases:
            fails.append(("C09/phase_sync/not-idempotent", ""))
    except Exception as e:
        fails.append((f"C09/phase_sync/raised-{type(e).__name__}", str(e)))


def trace_failures(root, trace=None, st=None, depth_max=2, cap=4000, alias_all=False):
    """BFS from one root pair.  trace: replay one path only."""
    fails = []
    L = build(root)
    S = harness_sync(L)
    if not exact_equal(embed(L), embed(S)):
        return [("C09/harness/twin-mismatch", "internal")], 0
    seen = {(structure_key(L),)}
    frontier = [(L, S, ())]
    nontrivial = 0
    for depth in range(1, depth_max + 1):
        new = []
        level = "full" if depth == 1 else "core"
        for L, S, tr in frontier:
            where = f"after {[t[0] for t in tr]}" if tr else "root"
            if L.fermionic:
                sync_laws(L, S, fails, st)
                if depth == 1 or st is None:
                    mixed_failures(L, S, fails, st)
            for op in ops_for(L, level):
                if op.tags & EXCLUDE_TAGS or op.mutator:
                    continue
                if trace is not None and (len(tr) >= len(trace) or op.name != trace[len(tr)][0]):
                    continue
                res = compare_op(op, L, S, fails, st, where)
                if st is not None:
                    st.evaluations += 1
                if res is not None and (depth == 1 or alias_all) and L.fermionic:
                    alias_failures(op, L, S, res[1], fails, st, where)
                if res is None or depth == depth_max:
                    continue
                rl, rs = res
                ol, os_ = result_objects(rl), result_objects(rs)
                if len(ol) != len(os_):
                    continue
                for j, (a, b) in enumerate(zip(ol, os_)):
                    import symmray as sr

                    if not (isinstance(a, sr.FermionicArray) and isinstance(b, sr.FermionicArray)) or a.ndim > 4:
                        continue
                    if any(np.asarray(blk).dtype == bool for blk in a.blocks.values()):
                        continue  # boolean-valued arrays (isfinite) have no sign semantics: not expanded
                    if "linalg" in op.tags:
                        # factors are gauge dependent: continue from the lazy factor and ITS harness twin
                        b = harness_sync(a)
                    key = (structure_key(a),)
                    if key in seen:
                        continue
                    if len(seen) >= cap:
                        continue
                    seen.add(key)
                    if a.phases:
                        nontrivial += 1
                    new.append((a, b, tr + ((op.name, j),)))
        frontier = new
    return fails, nontrivial, len(seen)


def roots(ctx, sym):
    out = []
    plans = [(0, "m3", "all", "all", "all"), (1, "core", "all", "all", "all"), (2, "m3", "all", "le1", "all"), (3, "m2", "two", "probe", "probe")]
    for n, menu, charges, sp, ph in plans:
        for d in U.arrays(sym, n, menu, "a", charges, sp, ferm=True, phases=ph, label=3):
            if n >= 2 and len(d["phases"]) == 0:
                continue  # nothing pending: covered by the other roots' synced twins
            out.append(d)
    # (index, conjugate index) matrices: eigh / solve / trace apply to the state itself
    for d in U.pair_arrays(sym, "two", "le1", ferm=True, phases="all", label=3):
        if len(d["phases"]):
            out.append(d)
    # derived roots: already-fused arrays (one and two fused axes) that picked up pending signs AFTER the fuse
    for n, menu, charges, sp in ((2, "m3", "all", "probe"), (3, "m2", "two", "probe0")):
        for j, d in enumerate(U.arrays(sym, n, menu, "a", charges, sp, ferm=True, phases="none", label=3)):
            if not d["sectors"]:
                continue
            grp = ((0, 1),) if n == 2 else ((2, 0),)
            out.append(dict(d, derive=(("fuse", grp), ("phase_sector_all", j % 2))))
            if n == 3 and j % 2:
                out.append(dict(d, derive=(("fuse", ((0, 1), (2,))), ("phase_flip", (0,)))))
    return out


def groups(ctx):
    out = []
    for sym in G.SYMS:
        nch = 24 if not ctx.thorough else 64
        for k in range(nch):
            out.append((sym, k, nch))
    return out


def run_group(ctx, group):
    sym, k, nch = group
    st = Stats()
    reset_library_state()
    depth = 3 if ctx.thorough else 2
    slice_mod = 1
    for i, d in enumerate(roots(ctx, sym)):
        if i % nch != k:
            continue
        n = len(d["indices"])
        if slice_mod > 1 and n >= 2 and (i // nch) % slice_mod != ctx.seed % slice_mod:
            continue
        fails, nt, nstates = trace_failures(d, st=st, depth_max=depth, cap=600 if ctx.thorough else 4000, alias_all=ctx.thorough)
        st.states += nstates
        st.traces += 1
        st.nontrivial += nt
        for sig, det in fails:
            st.violation(sig, {"root": d}, det)
        if len(d["phases"]) >= 1 and len(d["sectors"]) >= 2 and not st.samples:
            st.sample({"root": describe(build(d))})
    if slice_mod > 1:
        st.counters["capped"] += 1
        st.notes.append("quick: half of the n>=2 roots per seed (residue slice); all in thorough")
    return st


def replay(ctx, case):
    return trace_failures(case["root"], depth_max=3, cap=600, alias_all=True)[0]
