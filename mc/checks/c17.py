"""C17 - charges form an abelian group with parity; sector enumeration is exact.

E-enum, fully exhaustive as quantified: group laws against the table based
R-group over the finite groups and the box [-6,6](^2); sector enumeration against
a brute-force filter for every small array."""

import itertools

import numpy as np

from .. import groups as G
from ..arrays import ixd
from ..runner import Stats, reset_library_state

PROP = "C17"
BUDGET = {"quick": 240, "thorough": 3000}
META = {
    "rule": "group laws: every triple (finite groups; box [-6,6] for U1; [-6,6]^2 pairs in quick / triples in thorough for U1U1) - "
    "non-trivial = triple with at least two non-identity charges; sectors: every array with <=3 (quick) / <=4 (thorough) indices x every "
    "non-empty subset of a 3-charge set per index x every direction pattern x every total charge (reachable ones plus one unreachable) - "
    "sign() with its flag as bool / int / numpy.bool_ in every first-use order from cold memo caches; from_fill_fn / random also with the indices as list and as one-shot generator. non-trivial = array with >=2 valid sectors and at least one dual index",
    "bounds": {
        "quick": {"u1_box": 6, "u1u1": "all pairs + triples over [-2,2]^2", "max_indices": "3 over a 3-charge set, 4 over a 2-charge set"},
        "thorough": {"u1_box": 6, "u1u1": "all triples over [-6,6]^2", "max_indices": 4},
    },
    "assumptions": [
        "R-group (mc/groups.py) is the specification of the five groups",
        "bool is not probed as a charge (python bool is an int)",
    ],
}

SETS = {
    "Z2": [[0, 1]],
    "Z4": [[0, 1, 2], [1, 2, 3]],
    "U1": [[-1, 0, 1], [0, 1, 2]],
    "Z2Z2": [[(0, 0), (0, 1), (1, 1)], [(0, 1), (1, 0), (1, 1)]],
    "U1U1": [[(0, 0), (1, 0), (0, 1)], [(-1, 0), (1, 1), (0, 1)]],
}


def domain(sym, box):
    if sym == "Z2":
        return [0, 1]
    if sym == "Z4":
        return [0, 1, 2, 3]
    if sym == "U1":
        return list(range(-box, box + 1))
    if sym == "Z2Z2":
        return [(a, b) for a in (0, 1) for b in (0, 1)]
    return [(a, b) for a in range(-box, box + 1) for b in range(-box, box + 1)]


def groups(ctx):
    out = []
    for sym in G.SYMS:
        if sym == "U1U1":
            dom = domain(sym, 6)
            nchunks = 52 if ctx.thorough else 4
            for k in range(nchunks):
                out.append(("laws", sym, k, nchunks))
        else:
            out.append(("laws", sym, 0, 1))
    nmax = 4
    for sym in G.SYMS:
        sets = SETS[sym] if ctx.thorough else SETS[sym][:1]
        for si, cs in enumerate(sets):
            for n in range(0, nmax + 1):
                if n == 4 and not ctx.thorough:
                    cs = cs[:2]  # quick: four indices over the non-empty subsets of a two-charge set
                subsets = [c for r in range(1, len(cs) + 1) for c in itertools.combinations(cs, r)]
                first = subsets if n >= 1 else [None]
                for f in first:
                    out.append(("sectors", sym, si, n, f))
    return out


def run_group(ctx, group):
    if group[0] == "laws":
        return run_laws(ctx, *group[1:])
    return run_sectors(ctx, *group[1:])


def law_failures(S, sym, a, b, c, unary):
    """all group-law comparisons for one triple; returns list of (sig, detail)"""
    f = []
    try:
        ab = S.combine(a, b)
        if ab != G.combine(sym, a, b):
            f.append((f"C17/combine/{sym}/binary", f"combine({a},{b})={ab!r} expected {G.combine(sym, a, b)!r}"))
        if ab != S.combine(b, a):
            f.append((f"C17/combine/{sym}/commutative", f"{a},{b}"))
        abc = S.combine(a, b, c)
        if abc != G.combine(sym, a, b, c):
            f.append((f"C17/combine/{sym}/ternary", f"combine({a},{b},{c})={abc!r}"))
        if abc != S.combine(S.combine(a, b), c) or abc != S.combine(a, S.combine(b, c)):
            f.append((f"C17/combine/{sym}/associative", f"{a},{b},{c}"))
        if S.parity(ab) != (S.parity(a) + S.parity(b)) % 2:
            f.append((f"C17/parity/{sym}/homomorphism", f"{a},{b}"))
        if unary:
            e = S.combine()
            if e != G.identity(sym):
                f.append((f"C17/combine/{sym}/empty-identity", repr(e)))
            if S.combine(a) != a or S.combine(a, e) != a:
                f.append((f"C17/combine/{sym}/identity", f"{a}"))
            na = S.sign(a)
            if not G.valid(sym, na) or not S.valid(na):
                f.append((f"C17/sign_valid/{sym}/c={a}", f"sign({a})={na!r} is not a valid {sym} charge"))
            elif na != G.neg(sym, a):
                f.append((f"C17/sign/{sym}/value", f"sign({a})={na!r} expected {G.neg(sym, a)!r}"))
            if S.combine(a, na) != e:
                f.append((f"C17/sign/{sym}/inverse", f"combine({a}, sign({a}))={S.combine(a, na)!r}"))
            if S.sign(a, True) != na:
                f.append((f"C17/sign/{sym}/dual-flag", f"{a}"))
            if S.sign(a, False) != a:
                f.append((f"C17/sign/{sym}/nondual-identity", f"{a}"))
            p = S.parity(a)
            if p != G.parity(sym, a) or p not in (0, 1):
                f.append((f"C17/parity/{sym}/value", f"parity({a})={p!r}"))
            if S.parity(na) != p:
                f.append((f"C17/parity/{sym}/sign-invariant", f"{a}"))
            if not S.valid(a):
                f.append((f"C17/valid/{sym}/member-rejected", f"{a}"))
    except Exception as e:  # group operations on valid charges must not raise
        f.append((f"C17/laws/{sym}/raised-{type(e).__name__}", f"{a},{b},{c}: {e}"))
    return f


FLAG_FORMS = {"bool": (True, False), "int": (1, 0), "numpy.bool_": (np.True_, np.False_)}


def flag_failures(S, sym, dom, st=None):
    """the dualness flag of sign() in every representation the API accepts (bool, int 0/1, numpy.bool_), in every order
    of first use from cold caches (the helpers behind sign() are memoised, and 1 == True share a slot)"""
    f = []
    for order in itertools.permutations(FLAG_FORMS):
        reset_library_state()
        for a in dom:
            for form in order:
                t, fl = FLAG_FORMS[form]
                try:
                    got_t, got_f = S.sign(a, t), S.sign(a, fl)
                except Exception as e:
                    f.append((f"C17/sign/{sym}/flag-{form}/raised-{type(e).__name__}", f"sign({a!r}, {t!r}): {e}"))
                    continue
                if st is not None:
                    st.evaluations += 2
                    st.transitions += 2
                if got_t != G.neg(sym, a):
                    f.append((f"C17/sign/{sym}/flag-{form}/dual", f"sign({a!r}, {t!r})={got_t!r} expected {G.neg(sym, a)!r} (first-use order {order})"))
                if got_f != a:
                    f.append((f"C17/sign/{sym}/flag-{form}/nondual", f"sign({a!r}, {fl!r})={got_f!r} expected {a!r} (first-use order {order})"))
    reset_library_state()
    return f


def run_laws(ctx, sym, k, nchunks):
    import symmray as sr

    st = Stats()
    S = sr.get_symmetry(sym)
    dom = domain(sym, 6)
    e = G.identity(sym)
    if sym == "U1U1" and not ctx.thorough:
        small = domain(sym, 2)
        triples = itertools.chain(
            ((a, b, e) for a in dom for b in dom), ((a, b, c) for a in small for b in small for c in small)
        )
    else:
        triples = itertools.product(dom, repeat=3)
    seen_unary = set()
    for i, (a, b, c) in enumerate(triples):
        if i % nchunks != k:
            continue
        unary = a not in seen_unary
        seen_unary.add(a)
        st.evaluations += 1
        st.transitions += 5 + (9 if unary else 0)
        st.traces += 1
        if (a != e) + (b != e) + (c != e) >= 2:
            st.nontrivial += 1
        for sig, det in law_failures(S, sym, a, b, c, unary):
            st.violation(sig, {"kind": "laws", "sym": sym, "triple": (a, b, c)}, det)
        if i < 2:
            st.sample({"kind": "laws", "sym": sym, "triple": [repr(a), repr(b), repr(c)]})
    st.states = len(seen_unary)
    if k == 0:
        seen = set()
        for sig, det in flag_failures(S, sym, dom, st):
            if sig not in seen or len(seen) < 40:
                st.violation(sig, {"kind": "flags", "sym": sym}, det)
            seen.add(sig)
    # validity of non-members (only where the group is finite): must be rejected
    if k == 0:
        probes = [-1, 2, 4, 5] if sym in ("Z2", "Z4") else ([(0, 2), (2, 0), (-1, 0), 0] if sym == "Z2Z2" else [])
        for p in probes:
            if G.valid(sym, p):
                continue
            st.evaluations += 1
            try:
                ok = S.valid(p)
            except Exception:
                ok = False
            if ok:
                st.violation(f"C17/valid/{sym}/non-member-accepted", {"kind": "valid", "sym": sym, "c": p}, f"valid({p!r}) is True")
    return st


def total_charges(sym, tables, n):
    if sym == "U1":
        lo = min(min(t) for t in tables) if tables else 0
        hi = max(max(t) for t in tables) if tables else 0
        m = max(abs(lo), abs(hi)) * n + 1
        return list(range(-m, m + 1))
    if sym == "U1U1":
        vals = set()
        duals_all = list(itertools.product((False, True), repeat=n))
        for duals in duals_all:
            vals |= set(G.charge_closure(sym, tables, duals))
        vals.add((n + 2, 0))
        return sorted(vals)
    return domain(sym, 0)


def sector_failures(sr, sym, idescs, charge, ferm, static, with_fill):
    """returns (failures, nvalid)"""
    from ..arrays import make_index, get_class

    f = []
    duals = tuple(d[1] for d in idescs)
    tables = [tuple(c for c, _ in d[0]) for d in idescs]
    expected = G.valid_sectors(sym, tables, duals, charge)
    cfg = {"sym": sym, "indices": idescs, "charge": charge, "ferm": ferm, "static": static}
    klass, kw = get_class(sym, ferm, "static" if static else "dyn")
    if ferm:
        kw = dict(kw, oddpos=1)
    try:
        x = klass(indices=tuple(make_index(d) for d in idescs), charge=charge, **kw)
        got = list(x.gen_valid_sectors())
    except Exception as e:
        return [(f"C17/gen_valid_sectors/{sym}/raised-{type(e).__name__}", str(e))], len(expected)
    if len(got) != len(set(got)):
        f.append((f"C17/gen_valid_sectors/{sym}/repeated", f"{got}"))
    sg, se = set(got), set(expected)
    if se - sg:
        f.append((f"C17/gen_valid_sectors/{sym}/missing", f"missing {sorted(se - sg)[:4]} for duals={duals} charge={charge}"))
    if sg - se:
        f.append((f"C17/gen_valid_sectors/{sym}/extra", f"extra {sorted(sg - se)[:4]} for duals={duals} charge={charge}"))
    for sec in itertools.product(*tables):
        try:
            v = bool(x.is_valid_sector(sec))
        except Exception as e:
            f.append((f"C17/is_valid_sector/{sym}/raised-{type(e).__name__}", f"{sec}"))
            break
        if v != (sec in se):
            f.append((f"C17/is_valid_sector/{sym}/disagrees", f"{sec}: {v} duals={duals} charge={charge}"))
            break
    if with_fill:
        try:
            y = klass.from_fill_fn(lambda shape: np.zeros(shape), tuple(make_index(d) for d in idescs), charge=charge, **kw)
            if set(y.blocks) != se or len(y.blocks) != len(se):
                f.append((f"C17/from_fill_fn/{sym}/stored-sectors", f"{sorted(y.blocks)} vs {sorted(se)}"))
            for s, b in y.blocks.items():
                if tuple(b.shape) != tuple(dict(d[0])[c] for d, c in zip(idescs, s)):
                    f.append((f"C17/from_fill_fn/{sym}/block-shape", f"{s}"))
            # the indices handed over as a one-shot iterable (generator) or a list instead of a tuple
            for form, mk in (("generator", lambda: (make_index(d) for d in idescs)), ("list", lambda: [make_index(d) for d in idescs])):
                try:
                    yg = klass.from_fill_fn(lambda shape: np.zeros(shape), mk(), charge=charge, **kw)
                except TypeError:
                    continue  # a refusal of the argument form is not a wrong answer
                if yg.ndim != len(idescs) or set(yg.blocks) != se:
                    f.append((f"C17/from_fill_fn[indices as {form}]/{sym}/stored-sectors", f"ndim {yg.ndim} sectors {sorted(yg.blocks)[:4]} vs {sorted(se)[:4]} ({len(idescs)} indices)"))
            if len(idescs) <= 2 and not static and sym in ("Z2", "Z4", "U1"):
                # call history: the generic class was just used with another symmetry on the very same index structure
                # and total charge (wherever the labels are valid charges of both groups)
                labels = {c for t in tables for c in t} | {charge}
                for other in ("Z2", "Z4", "U1"):
                    if other == sym or not all(G.valid(other, c) for c in labels):
                        continue
                    try:
                        klass.random(tuple(make_index(d) for d in idescs), charge=charge, seed=0, **dict(kw, symmetry=other))
                        zh = klass.random(tuple(make_index(d) for d in idescs), charge=charge, seed=0, **kw)
                    except Exception:
                        continue
                    if set(zh.blocks) != se:
                        f.append((f"C17/random[after the same call with {other}]/{sym}/stored-sectors", f"{sorted(zh.blocks)[:4]} vs {sorted(se)[:4]}"))
            if len(idescs) <= 2:
                zg = klass.random((make_index(d) for d in idescs), charge=charge, seed=0, **kw)
                if zg.ndim != len(idescs) or set(zg.blocks) != se:
                    f.append((f"C17/random[indices as generator]/{sym}/stored-sectors", f"ndim {zg.ndim} sectors {sorted(zg.blocks)[:4]}"))
                z = klass.random(tuple(make_index(d) for d in idescs), charge=charge, seed=0, **kw)
                if set(z.blocks) != se:
                    f.append((f"C17/random/{sym}/stored-sectors", f"{sorted(z.blocks)} vs {sorted(se)}"))
        except Exception as e:
            f.append((f"C17/from_fill_fn/{sym}/raised-{type(e).__name__}", str(e)))
    return f, len(expected)


def run_sectors(ctx, sym, si, n, first):
    import symmray as sr

    st = Stats()
    cs = SETS[sym][si]
    if n == 4 and not ctx.thorough:
        cs = cs[:2]
    subsets = [c for r in range(1, len(cs) + 1) for c in itertools.combinations(cs, r)]
    rest = itertools.product(subsets, repeat=max(n - 1, 0))
    for tail in rest:
        tabs = ((first,) + tail) if n >= 1 else ()
        charges = total_charges(sym, [tuple(t) for t in tabs], n)
        for duals in itertools.product((False, True), repeat=n):
            idescs = tuple(ixd(G.size_table("a", t, ax), d) for ax, (t, d) in enumerate(zip(tabs, duals)))
            for charge in charges:
                variants = [(False, False)]
                if n <= 2:
                    variants = [(False, False), (True, False)]
                    if sym != "Z4":
                        variants += [(False, True), (True, True)]
                for ferm, static in variants:
                    fails, nvalid = sector_failures(sr, sym, idescs, charge, ferm, static, with_fill=True)
                    st.evaluations += 1
                    st.states += 1
                    st.transitions += 2 + int(np.prod([len(t) for t in tabs], dtype=int))
                    st.traces += 1
                    if nvalid >= 2 and any(duals):
                        st.nontrivial += 1
                    for sig, det in fails:
                        st.violation(sig, {"kind": "sectors", "sym": sym, "indices": idescs, "charge": charge, "ferm": ferm, "static": static}, det)
                    if st.evaluations == 5:
                        st.sample({"kind": "sectors", "sym": sym, "indices": repr(idescs), "charge": repr(charge), "valid_sectors": nvalid})
    return st


def replay(ctx, case):
    import symmray as sr

    if case["kind"] == "laws":
        a, b, c = case["triple"]
        return law_failures(sr.get_symmetry(case["sym"]), case["sym"], a, b, c, True)
    if case["kind"] == "flags":
        return flag_failures(sr.get_symmetry(case["sym"]), case["sym"], domain(case["sym"], 6))
    if case["kind"] == "valid":
        S = sr.get_symmetry(case["sym"])
        return [(f"C17/valid/{case['sym']}/non-member-accepted", "")] if S.valid(case["c"]) else []
    return sector_failures(sr, case["sym"], case["indices"], case["charge"], case["ferm"], case["static"], True)[0]
