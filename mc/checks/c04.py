"""C04 - a fermionic network's value does not depend on how it is contracted.

E-bfs used as a confluence check: for every small network every contraction
route (pair order, operand order, listing order of shared legs, mode,
pre-transposes, all-at-once vs leg-by-leg with einsum traces) is executed on
the real code; all terminal values - after a fermionic transpose to the
canonical leg order - must be equal exactly, carry equal labels, and equal the
one-shot R-graded evaluation of the whole network.  Plus the exhaustive label
algebra sub-check."""

import itertools

import numpy as np

from .. import groups as G
from .. import networks as N
from .. import ref_graded as RG
from ..arrays import arrd, build, describe, embed, exact_equal, frame_of, gt_of, ixd, oddpos_key
from ..runner import Stats, reset_library_state

PROP = "C04"
BUDGET = {"quick": 420, "thorough": 3600}
META = {
    "rule": "networks: pairs, 3-chains, triangles (with 0-2 dangling legs) and, sliced in quick, 4-chains / 4-cycles; per topology every bond orientation x dangling directions x every "
    "even/odd charge assignment that leaves all tensors non-empty x every assignment of distinct labels to the odd tensors in every order x two index tables x sparsity probes x pending signs; "
    "routes: every pair order x both operand orders x every listing order of shared legs x modes fused/blockwise x pre-transposes x all-at-once vs one-leg-then-einsum-trace. "
    "Label algebra: every pair of label tuples (lengths 0-3, labels 1-4, both directions) through the public outer product. non-trivial = network with >=1 odd tensor or >=1 odd bond sector",
    "bounds": {"quick": "<=3 tensors complete for table 0 (triangles with dangling legs: one index table; others: two); 4 tensors: residue slice by seed", "thorough": "4 tensors complete for one table"},
    "assumptions": [
        "exact integer tags (products of <=4 tags stay far below 2**53)",
        "the one-shot R-graded network value (mc/ref_graded.py network()) is the absolute reference for all networks",
    ],
}

QUICK_TOPOS = ["pair1", "pair2", "pair1-d", "pair2-d", "chain3", "chain3-d", "chain3-dm", "triangle", "triangle-d", "triangle-dd"]
FOUR = ["chain4", "chain4-d", "cycle4"]


def leg_tables(sym, topo, which):
    """charge tables per leg name"""
    e = G.identity(sym)
    al = G.ALPHABET[sym]
    odd = [c for c in al if G.parity(sym, c) == 1][0]
    third = [c for c in al if c not in (e, odd)]
    names = sorted({nm for legs in topo for nm in legs})
    out = {}
    for k, nm in enumerate(names):
        if which == 0:
            out[nm] = {e: 1 + (k % 2), odd: 2 - (k % 2)}
        elif which == 1 and third:
            out[nm] = {e: 1, odd: 1, third[0]: 1} if k % 2 == 0 else {odd: 2, third[0]: 1}
        else:
            out[nm] = {odd: 1} if k % 2 else {e: 1, odd: 1}
    return out


def label_assignments(nodd, full=True):
    if nodd == 0:
        return [()]
    pool = list(range(1, nodd + 2))
    perms = list(itertools.permutations(pool, nodd))
    if full or nodd <= 2:
        return perms
    return [p for p in perms if set(p) == set(range(1, nodd + 1))] + [tuple(range(2, nodd + 2))]


def networks(ctx, sym, tname, which_table):
    topo = N.TOPOLOGIES[tname]
    occ, bonds, dangling = N.leg_info(topo)
    tables = leg_tables(sym, topo, which_table)
    e = G.identity(sym)
    oddc = [c for c in G.ALPHABET[sym] if G.parity(sym, c) == 1][0]
    nt = len(topo)
    k = 0
    for orient in itertools.product((False, True), repeat=len(bonds)):
        for dd in itertools.product((False, True), repeat=len(dangling)):
            for par in itertools.product((0, 1), repeat=nt):
                charges = [oddc if p else e for p in par]
                nodd = sum(par)
                for labs in label_assignments(nodd, full=(nt <= 3)):
                    k += 1
                    it = iter(labs)
                    labels = [next(it) if p else None for p in par]
                    yield dict(sym=sym, topo=tname, table=which_table, orient=dict(zip(bonds, orient)), danglers=dict(zip(dangling, dd)),
                               charges=charges, labels=labels, sparsity=("full" if k % 3 else (k // 3) % 4 + 1), phases=("some" if k % 2 else "none"),
                               seed=k % 5, dtype=("complex128" if k % 7 == 0 else "float64"))


def build_network(spec):
    topo = N.TOPOLOGIES[spec["topo"]]
    tables = leg_tables(spec["sym"], topo, spec["table"])
    descs = N.network_descs(spec["sym"], topo, tables, spec["orient"], spec["danglers"], spec["charges"], spec["labels"],
                            sparsity=spec["sparsity"], phases=spec["phases"], fill_seed=spec["seed"], dtype=spec["dtype"])
    return topo, descs


def route_opts(ntensors, thorough):
    if ntensors <= 2:
        return dict(both_orders=True, listings=True, partial=True, pre=2, pre_both=True, modes=("fused", "blockwise"))
    if ntensors == 3:
        return dict(both_orders=True, listings=True, partial=True, pre=1, pre_both=False, modes=("fused", "blockwise"))
    return dict(both_orders=True, listings=True, partial=False, pre=0, pre_both=False, modes=("fused", "blockwise") if thorough else ("fused",))


def network_failures(spec, st=None, thorough=False):
    import symmray as sr

    topo, descs = build_network(spec)
    try:
        arrs = [build(d) for d in descs]
    except Exception as e:
        return [(f"C04/build/raised-{type(e).__name__}", str(e))], False
    if any(not a.blocks for a in arrs):
        return [], False
    occ, bonds, dangling = N.leg_info(topo)
    out_legs = dangling
    fails, nroutes, ncon = N.route_set_failures(sr, arrs, topo, out_legs, route_opts(len(topo), thorough), with_reference=True)
    if st is not None:
        st.transitions += ncon
        st.evaluations += nroutes
        st.traces += nroutes
    nontrivial = any(a.oddpos for a in arrs) or any(a.phases for a in arrs)
    return [(f"C04/{kd}", det) for kd, det in fails], nontrivial


# --------------------------------------------------------------------------- #
# label algebra


def label_tuples(maxlen=3, labels=(1, 2, 3, 4)):
    out = [()]
    for n in range(1, maxlen + 1):
        for labs in itertools.permutations(labels, n):
            for duals in itertools.product((False, True), repeat=n):
                out.append(tuple(zip(labs, duals)))
    return out


def label_case_failures(sym, la, lb, st=None):
    """outer product of two one-index tensors carrying explicit label lists"""
    import symmray as sr

    # a conjugate pair may only meet across the two operands; duplicates inside one operand are invalid inputs
    all_l = list(la) + list(lb)
    for (l1, d1), (l2, d2) in itertools.combinations(all_l, 2):
        if l1 == l2 and d1 == d2:
            return [], False
    e = G.identity(sym)
    oddc = [c for c in G.ALPHABET[sym] if G.parity(sym, c) == 1][0]

    def mk(labs, t0):
        c = oddc if len(labs) % 2 else e
        return arrd(sym, (ixd({c: 2}, False),), c, ((c,),), ferm=True, oddpos=("L", tuple(labs)), fill=("seq", t0))

    a_d, b_d = mk(la, 3), mk(lb, 11)
    a, b = build(a_d), build(b_d)
    ref = RG.contract(gt_of(a), gt_of(b), (), ())
    fails = []
    for mode in ("blockwise", "fused", "auto"):
        try:
            c = sr.tensordot(a, b, 0, mode=mode)
        except Exception as ex:
            fails.append((f"C04/labels/raised-{type(ex).__name__}", f"{la} x {lb}: {ex}"))
            continue
        if st is not None:
            st.transitions += 1
        got_labels = oddpos_key(c)
        if list(got_labels) != sorted(got_labels, key=RG.label_key):
            fails.append(("C04/labels/not-sorted", f"{la} x {lb}: remaining labels {got_labels} are not in the documented order"))
        conj_pairs = any(l1 == l2 for (l1, _), (l2, _) in itertools.product(la, lb))
        if not conj_pairs:
            # no conjugate labels: the sorted label tuple is unique
            if oddpos_key(c) != tuple(ref.labels):
                fails.append(("C04/labels/remaining-labels", f"{la} x {lb}: {oddpos_key(c)} expected {ref.labels}"))
            elif not exact_equal(embed(c), ref.arr):
                fails.append(("C04/labels/sign", f"{la} x {lb}: global sign differs from the word model"))
        else:
            # conjugate pairs may or may not have been annihilated: compare in the fully annihilated normal form
            l1, s1 = RG.full_canon(oddpos_key(c))
            l2, s2 = RG.full_canon(tuple(ref.labels))
            if l1 != l2:
                fails.append(("C04/labels/remaining-labels-normal-form", f"{la} x {lb}: {oddpos_key(c)} -> {l1} expected {ref.labels} -> {l2}"))
            elif not exact_equal(embed(c) * s1, ref.arr * s2):
                fails.append(("C04/labels/sign-normal-form", f"{la} x {lb}: sign differs from the word model after annihilating all conjugate pairs"))
    return fails, len(la) + len(lb) >= 2


def order_failures():
    from symmray import FermionicOperator as FO

    ops = [FO(l, d) for l in (1, 2, 3, 4) for d in (False, True)]
    fails = []
    for x in ops:
        if x < x:
            fails.append(("C04/label-order/irreflexive", repr(x)))
        for y in ops:
            if (x == y) != ((x.label, x.dual) == (y.label, y.dual)):
                fails.append(("C04/label-order/equality", f"{x},{y}"))
            if x != y and not ((x < y) ^ (y < x)):
                fails.append(("C04/label-order/total", f"{x},{y}"))
            for z in ops:
                if x < y and y < z and not x < z:
                    fails.append(("C04/label-order/transitive", f"{x},{y},{z}"))
    return fails


def groups(ctx):
    out = []
    for sym in G.SYMS:
        for tname in QUICK_TOPOS:
            nch = {"triangle": 8, "triangle-d": 16, "triangle-dd": 32, "chain3-d": 4, "chain3-dm": 2, "chain3": 2}.get(tname, 1)
            tables = (0, 1) if (ctx.thorough or tname not in ("triangle-d", "triangle-dd")) else (0,)
            for table in tables:
                for k in range(nch):
                    out.append(("net", sym, tname, table, k, nch))
        for tname in FOUR:
            for k in range(12):
                out.append(("net", sym, tname, 0, k, 12))
        for k in range(8):
            out.append(("labels", sym, k, 8))
    out.append(("order",))
    return out


def run_group(ctx, group):
    st = Stats()
    reset_library_state()
    if group[0] == "order":
        for sig, det in order_failures():
            st.violation(sig, {"kind": "order"}, det)
        st.evaluations += 8 * 8 * 8
        st.states += 8
        st.transitions += 512
        return st
    if group[0] == "labels":
        _, sym, k, nch = group
        tuples = label_tuples(3 if ctx.thorough else 2) if sym in ("U1U1", "Z2Z2", "Z4") and not ctx.thorough else label_tuples(3)
        for i, (la, lb) in enumerate(itertools.product(tuples, repeat=2)):
            if i % nch != k:
                continue
            if not ctx.thorough and len(la) + len(lb) > 4:
                continue
            fails, nt = label_case_failures(sym, la, lb, st)
            st.evaluations += 1
            st.states += 1
            st.traces += 1
            st.nontrivial += int(nt)
            for sig, det in fails:
                st.violation(sig, {"kind": "labels", "sym": sym, "la": la, "lb": lb}, det)
        st.sample({"label_pair": [repr(tuples[5]), repr(tuples[-1])]})
        return st
    _, sym, tname, table, k, nch = group
    four = tname in FOUR
    slice_mod = 1 if (ctx.thorough or not four) else 8
    for i, spec in enumerate(networks(ctx, sym, tname, table)):
        if i % nch != k:
            continue
        if slice_mod > 1 and (i // nch) % slice_mod != ctx.seed % slice_mod:
            continue
        fails, nt = network_failures(spec, st, ctx.thorough)
        st.states += 1
        st.nontrivial += int(nt)
        for sig, det in fails:
            st.violation(sig, {"kind": "net", "spec": spec}, det)
        if nt and not st.samples:
            topo, descs = build_network(spec)
            st.sample({"topology": tname, "legs": [list(l) for l in topo], "tensors": [describe(build(d)) for d in descs]})
    if slice_mod > 1:
        st.counters["capped"] += 1
        st.notes.append(f"4-tensor networks: residue slice 1/{slice_mod} per seed in quick")
    return st


def replay(ctx, case):
    if case["kind"] == "order":
        return order_failures()
    if case["kind"] == "labels":
        return label_case_failures(case["sym"], tuple(case["la"]), tuple(case["lb"]))[0]
    return network_failures(case["spec"], thorough=True)[0]
