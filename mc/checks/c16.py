"""C16 - all ways of building an array agree, and dense conversion round-trips.

E-enum over classes x symmetry-argument variants x index structures x
directions x charges x stored sectors x dense labelings."""

import itertools
import random
import warnings

import numpy as np

from .. import groups as G
from .. import universe as U
from ..arrays import build, describe, duals_of, embed, exact_equal, frame_of, get_class, index_key, make_blocks, make_index, tables_of
from ..runner import Stats, reset_library_state

PROP = "C16"
BUDGET = {"quick": 300, "thorough": 3000}
META = {
    "rule": "for every (symmetry, abelian/fermionic, index structure n<=3, direction pattern, total charge, stored-sector pattern): the direct constructor, from_blocks, "
    "from_fill_fn, random and from_dense (classmethod and utils helper) are called on every class that can represent it (static class, dynamic class with the symmetry "
    "as string and as object) with the optional arguments given and omitted, and the results compared pairwise with the harness's own expectation (tables, charge, symmetry, "
    "blocks exactly); a static class given a mismatching symmetry and a dynamic class given none must refuse; dense trips under sorted / reversed / interleaved / seeded labelings; "
    "from_dense on every arrangement of 3-4 positions of one charge among 5-7 positions (vectors, matrix rows); to_dense against the harness embedding, also for arrays whose blocks have differing element types (real/complex, int/float, float32/float64, narrow stored first or last). non-trivial = at least one dual index and >=2 stored sectors",
    "bounds": {"quick": "n<=2 menu core, n=3 menu m3", "thorough": "n=3 menu core"},
    "assumptions": [
        "from_blocks can only know the charges that occur in the given blocks: compared with tables restricted to those charges",
        "an omitted charge means: identity (from_* constructors), inferred from the stored sectors (direct constructor)",
    ],
}


def shape_fill(shape):
    n = int(np.prod(shape, dtype=int))
    return (np.arange(1, n + 1, dtype=float) * (1 + (sum(shape) % 3))).reshape(shape)


def same_array(x, exp, what):
    """exp: dict(sym, ferm, tables[(cm_items, dual)], charge, blocks)"""
    import symmray as sr

    out = []
    if not isinstance(x, sr.AbelianArray):
        return [("type", f"{what}: {type(x).__name__}")]
    if type(x.symmetry).__name__ != exp["sym"]:
        out.append(("symmetry", f"{what}: {x.symmetry!r} expected {exp['sym']}"))
    if bool(x.fermionic) != exp["ferm"]:
        out.append(("class", f"{what}: fermionic={x.fermionic}"))
    if x.charge != exp["charge"]:
        out.append(("charge", f"{what}: charge {x.charge!r} expected {exp['charge']!r}"))
    got_tables = tuple((tuple(ix.chargemap.items()), bool(ix.dual)) for ix in x.indices)
    if got_tables != tuple(exp["tables"]):
        out.append(("index-tables", f"{what}: {got_tables} expected {exp['tables']}"))
    if any(ix.subinfo is not None for ix in x.indices):
        out.append(("index-tables", f"{what}: unexpected sub-index info"))
    if set(x.blocks) != set(exp["blocks"]):
        out.append(("sectors", f"{what}: stored {sorted(x.blocks)} expected {sorted(exp['blocks'])}"))
    else:
        for s, b in exp["blocks"].items():
            if not exact_equal(x.blocks[s], b) or np.asarray(x.blocks[s]).dtype != np.asarray(b).dtype:
                out.append(("blocks", f"{what}: block {s} differs"))
                break
    return out


def class_variants(sym, ferm):
    """(label, class, symmetry-kwarg dict, must_refuse)"""
    import symmray as sr

    out = []
    other = "U1" if sym != "U1" else "Z2"
    if sym != "Z4":
        klass = get_class(sym, ferm, "static")[0]
        out.append(("static/omitted", klass, {}, False))
        out.append(("static/str", klass, {"symmetry": sym}, False))
        out.append(("static/obj", klass, {"symmetry": sr.get_symmetry(sym)}, False))
        out.append(("static/mismatch", klass, {"symmetry": other}, True))
        out.append(("static/mismatch-obj", klass, {"symmetry": sr.get_symmetry(other)}, True))
    dyn = sr.FermionicArray if ferm else sr.AbelianArray
    out.append(("dynamic/str", dyn, {"symmetry": sym}, False))
    out.append(("dynamic/obj", dyn, {"symmetry": sr.get_symmetry(sym)}, False))
    out.append(("dynamic/omitted", dyn, {}, True))
    return out


def restricted_tables(indices, stored):
    out = []
    for ax, (cm, dual, _) in enumerate(indices):
        present = {s[ax] for s in stored}
        out.append((tuple((c, d) for c, d in cm if c in present), dual))
    return tuple(out)


def construct_failures(sym, ferm, indices, charge, stored, st=None):
    import symmray as sr
    from symmray.utils import get_random_fill_fn

    fails = []
    e = G.identity(sym)
    duals = duals_of(indices)
    valid = G.valid_sectors(sym, tables_of(indices), duals, charge)
    shapes = {s: tuple(dict(ix[0])[c] for ix, c in zip(indices, s)) for s in valid}
    blocks = {s: shape_fill(shapes[s]) for s in stored}
    full_tables = tuple((ix[0], ix[1]) for ix in indices)
    odd = G.parity(sym, charge) == 1
    fkw = {"oddpos": 9} if (ferm and odd) else {}
    exp = dict(sym=sym, ferm=ferm, tables=full_tables, charge=charge, blocks=blocks)
    exp_fb = dict(exp, tables=restricted_tables(indices, stored))
    exp_fill = dict(exp, blocks={s: shape_fill(shapes[s]) for s in valid})
    n = len(indices)

    def run(name, must_refuse, fn, expectation):
        try:
            with warnings.catch_warnings():
                warnings.simplefilter("ignore")
                x = fn()
        except Exception as ex:
            if st is not None:
                st.refuse(name, ex)
            if not must_refuse:
                fails.append((f"C16/{name}/raised-{type(ex).__name__}", f"{ex}"))
            return None
        if st is not None:
            st.transitions += 1
        if must_refuse:
            fails.append((f"C16/{name}/accepted", "call that must be refused returned an array"))
            return x
        for kind, det in same_array(x, expectation, name):
            fails.append((f"C16/{name}/{kind}", det))
        return x

    for label, klass, skw, refuse in class_variants(sym, ferm):
        mk_ix = lambda: tuple(make_index(i) for i in indices)
        # direct constructor, charge given / omitted
        run(f"init[{label}]", refuse, lambda: klass(indices=mk_ix(), charge=charge, blocks=dict(blocks), **skw, **fkw), exp)
        if blocks or charge == e:
            # documented: inferred from the first sector, identity without sectors
            okw = {"oddpos": 9} if ferm else {}
            run(f"init-charge-omitted[{label}]", refuse, lambda: klass(indices=mk_ix(), blocks=dict(blocks), **skw, **okw), exp)
        # from_blocks
        if blocks:
            run(f"from_blocks[{label}]", refuse, lambda: klass.from_blocks(dict(blocks), duals, charge=charge, **skw, **fkw), exp_fb)
            if charge == e:
                run(f"from_blocks-charge-omitted[{label}]", refuse, lambda: klass.from_blocks(dict(blocks), duals, **skw, **fkw), exp_fb)
        # from_fill_fn / random  (describe the array with every valid sector stored)
        if set(stored) == set(valid):
            run(f"from_fill_fn[{label}]", refuse, lambda: klass.from_fill_fn(shape_fill, mk_ix(), charge, **skw, **fkw), exp_fill)
            if charge == e:
                run(f"from_fill_fn-charge-omitted[{label}]", refuse, lambda: klass.from_fill_fn(shape_fill, mk_ix(), **skw, **fkw), exp_fill)
            if not refuse:
                try:
                    r1 = klass.random(mk_ix(), charge, seed=5, **skw, **fkw)
                    r2 = klass.from_fill_fn(get_random_fill_fn(seed=5), mk_ix(), charge, **skw, **fkw)
                    if st is not None:
                        st.transitions += 2
                    ex2 = dict(exp, blocks=dict(r2.blocks))
                    for kind, det in same_array(r1, ex2, "random"):
                        fails.append((f"C16/random[{label}]/{kind}", det))
                    if set(r1.blocks) != set(valid):
                        fails.append((f"C16/random[{label}]/sectors", "random does not store exactly the valid sectors"))
                except Exception as ex:
                    fails.append((f"C16/random[{label}]/raised-{type(ex).__name__}", f"{ex}"))
    # the caller's mapping is input data: arrays built from it must not alias it (two arrays built from the same
    # mapping stay equal to what the mapping describes after one of them is changed in place)
    if blocks and not refuse_all(sym, ferm):
        klass, skw = get_class(sym, ferm, "dyn")
        for name, mk in (("init", lambda D: klass(indices=tuple(make_index(i) for i in indices), charge=charge, blocks=D, **skw, **fkw)),
                         ("from_blocks", lambda D: klass.from_blocks(D, duals, charge=charge, **skw, **fkw))):
            D = {s_: np.array(b) for s_, b in blocks.items()}
            snap = {s_: np.array(b) for s_, b in D.items()}
            try:
                a1 = mk(D)
                a2 = mk(D)
                a1 *= 2.0
                a1.blocks.pop(next(iter(a1.blocks)))
                a1.conj(inplace=True)
                if st is not None:
                    st.transitions += 4
                if set(D) != set(snap) or any(not exact_equal(D[k], snap[k]) for k in snap):
                    fails.append((f"C16/{name}/aliases-caller-mapping", "in-place operations on the array changed the mapping it was built from"))
                exp2 = exp if name == "init" else exp_fb
                for kind, det in same_array(a2, exp2, name + "[second array]"):
                    fails.append((f"C16/{name}/second-array-{kind}", det))
            except Exception as ex:
                fails.append((f"C16/{name}/alias-check-raised-{type(ex).__name__}", str(ex)))
    return fails


def refuse_all(sym, ferm):
    return False


# --------------------------------------------------------------------------- #
# dense trips


def labelings(table, seed):
    """orderings of the linear positions of one axis: list of charge labels per position"""
    sorted_lab = [c for c, d in table for _ in range(d)]
    outs = {"sorted": sorted_lab, "reversed": sorted_lab[::-1]}
    # interleaved: round robin over charges
    pools = [[c] * d for c, d in table]
    inter = []
    while any(pools):
        for p in pools:
            if p:
                inter.append(p.pop())
    outs["interleaved"] = inter
    rng = random.Random(seed)
    perm = list(sorted_lab)
    rng.shuffle(perm)
    outs["seeded"] = perm
    return outs


def projection(sym, D, maps, duals, charge):
    """harness: project D onto charge-conserving sectors, positions grouped by charge keeping original order"""
    pos = []
    for m in maps:
        byc = {}
        for i, c in enumerate(m):
            byc.setdefault(c, []).append(i)
        pos.append(byc)
    blocks = {}
    for sec in itertools.product(*[sorted(p) for p in pos]):
        if G.sector_charge(sym, sec, duals) == charge:
            blocks[sec] = D[np.ix_(*[pos[k][c] for k, c in enumerate(sec)])] if sec else D
    tables = tuple((tuple((c, len(p[c])) for c in sorted(p)), bool(d)) for p, d in zip(pos, duals))
    return blocks, tables


def dense_failures(d, seed, st=None):
    import symmray as sr
    from symmray import utils as su

    sym, ferm = d["sym"], d["ferm"]
    fails = []
    x = build(d)
    E = embed(x)
    n = x.ndim
    fr = frame_of(x)
    duals = tuple(x.duals)
    odd = G.parity(sym, d["charge"]) == 1
    fkw = {"oddpos": 9} if (ferm and odd) else {}
    # to_dense against the harness embedding
    for name, fn in (("to_dense", lambda: x.to_dense()),):
        try:
            T = fn()
            if st is not None:
                st.transitions += 1
            if not exact_equal(T, E):
                fails.append((f"C16/{name}/value", "to_dense differs from the harness embedding"))
        except Exception as ex:
            if x.blocks or n:
                fails.append((f"C16/{name}/raised-{type(ex).__name__}", f"{ex}"))
    # the same with blocks of differing element types (as left by a + 1j * b with sparse b, or by from_blocks with mixed blocks):
    # narrow type stored first / last, integer next to fractional
    if len(x.blocks) >= 2:
        secs = list(x.blocks)
        recipes = {
            "real-first": lambda k, b: b if k == 0 else b + 1j * (b + 1),
            "complex-first": lambda k, b: b + 1j * (b + 1) if k == 0 else b,
            "int-first": lambda k, b: b.astype(np.int64) if k == 0 else b + 0.5,
            "float32-first": lambda k, b: b.astype(np.float32) if k == 0 else b + 2.0 ** -40,
        }
        for rname, rec in recipes.items():
            try:
                xm = x.copy_with(blocks={sec: rec(k, np.asarray(x.blocks[sec])) for k, sec in enumerate(secs)})
                Em = embed(xm)
                T = xm.to_dense()
                if st is not None:
                    st.transitions += 1
                if not exact_equal(T, Em):
                    fails.append(("C16/to_dense[mixed-dtype]/value", f"{rname}: to_dense differs from the harness embedding of blocks with element types {[str(np.asarray(b).dtype) for b in xm.blocks.values()]}"))
                elif np.asarray(T).dtype != Em.dtype:
                    fails.append(("C16/to_dense[mixed-dtype]/dtype", f"{rname}: {np.asarray(T).dtype} expected {Em.dtype}"))
            except Exception as ex:
                fails.append((f"C16/to_dense[mixed-dtype]/raised-{type(ex).__name__}", f"{rname}: {ex}"))
    labs = [labelings(t, seed + 13 * ax) for ax, t in enumerate(fr)]
    for lname in ("sorted", "reversed", "interleaved", "seeded"):
        maps = [l[lname] for l in labs]
        # position p of axis k in D holds the element that sits at rank r among positions of its charge
        perms = []
        for k, m in enumerate(maps):
            offs = {}
            p0 = 0
            for c, dd in fr[k]:
                offs[c] = p0
                p0 += dd
            seen = {}
            perm = []
            for c in m:
                r = seen.get(c, 0)
                seen[c] = r + 1
                perm.append(offs[c] + r)
            perms.append(perm)
        D = E[np.ix_(*perms)] if n else E
        pblocks, ptables = projection(sym, D, maps, duals, d["charge"])
        # blocks that the array does not store are zero in D: drop nothing - from_dense stores every valid sector
        exp = dict(sym=sym, ferm=ferm, tables=ptables, charge=d["charge"], blocks=pblocks)
        variants = [("static", get_class(sym, ferm, "static")[0], {})] if sym != "Z4" else []
        variants.append(("dynamic", get_class(sym, ferm, "dyn")[0], {"symmetry": sym}))
        for vlabel, klass, skw in variants:
            name = f"from_dense[{vlabel}/{lname}]"
            try:
                with warnings.catch_warnings():
                    warnings.simplefilter("error")
                    y = klass.from_dense(D, maps, duals, charge=d["charge"], **skw, **fkw)
                if st is not None:
                    st.transitions += 1
            except Exception as ex:
                fails.append((f"C16/from_dense[{vlabel}]/raised-{type(ex).__name__}", f"{lname}: {ex}"))
                continue
            for kind, det in same_array(y, exp, name):
                fails.append((f"C16/from_dense[{vlabel}]/{kind}", det))
            # value identity: embedding of the result in x's frame equals x (stored sectors) -- i.e. dense -> blocks -> dense
            try:
                if lname == "sorted" and not exact_equal(embed(y, fr, dtype=E.dtype), E):
                    fails.append((f"C16/from_dense[{vlabel}]/roundtrip", "to dense and back with the matching labels is not the identity"))
            except (KeyError, ValueError) as ex:
                fails.append((f"C16/from_dense[{vlabel}]/roundtrip", repr(ex)))
        # helper in utils (static classes only)
        if sym != "Z4" and not (ferm and odd):
            try:
                with warnings.catch_warnings():
                    warnings.simplefilter("error")
                    y = su.from_dense(D, sym, maps, duals=duals, fermionic=ferm, charge=d["charge"])
                for kind, det in same_array(y, exp, "utils.from_dense"):
                    fails.append((f"C16/utils.from_dense/{kind}", det))
            except Exception as ex:
                fails.append((f"C16/utils.from_dense/raised-{type(ex).__name__}", f"{lname}: {ex}"))
        # junk in non-conserving sectors: ignored / refused as documented
        if lname == "seeded" and n >= 1:
            J = np.array(D, copy=True)
            mask = np.ones(D.shape, dtype=bool)
            for sec in pblocks:
                pos = [[i for i, c in enumerate(m) if c == sc] for m, sc in zip(maps, sec)]
                mask[np.ix_(*pos)] = False
            if mask.any():
                J[mask] = 77.0
                klass, skw = variants[-1][1], variants[-1][2]
                try:
                    y = klass.from_dense(J, maps, duals, charge=d["charge"], invalid_sectors="ignore", **skw, **fkw)
                    for kind, det in same_array(y, exp, "from_dense[invalid=ignore]"):
                        fails.append((f"C16/from_dense[invalid=ignore]/{kind}", det))
                except Exception as ex:
                    fails.append((f"C16/from_dense[invalid=ignore]/raised-{type(ex).__name__}", f"{ex}"))
                try:
                    klass.from_dense(J, maps, duals, charge=d["charge"], invalid_sectors="raise", **skw, **fkw)
                    fails.append(("C16/from_dense[invalid=raise]/accepted", "non-zero entries outside the conserving sectors were accepted"))
                except ValueError:
                    pass
                except Exception as ex:
                    fails.append((f"C16/from_dense[invalid=raise]/raised-{type(ex).__name__}", f"{ex}"))
    return fails


def position_failures(sym, st=None):
    """from_dense with EVERY arrangement of the positions of one charge on an axis (3-4 positions of the charge among 5-7,
    the others carrying a second charge): vectors, and matrices whose row axis runs through the arrangements"""
    fails = []
    al = G.ALPHABET[sym]
    e = G.identity(sym)
    klass = get_class(sym, False, "dyn")[0]
    for c in al[:2]:
        other = [q for q in al if q != c][0]
        for dual in (False, True):
            for k, N in ((3, 5), (3, 6), (4, 6), (4, 7)):
                for pos in itertools.combinations(range(N), k):
                    labels = [c if i in pos else other for i in range(N)]
                    vec = np.zeros(N)
                    vec[list(pos)] = np.arange(1, k + 1)
                    try:
                        with warnings.catch_warnings():
                            warnings.simplefilter("error")
                            y = klass.from_dense(vec, [labels], [dual], charge=G.signed(sym, c, dual), symmetry=sym)
                        if st is not None:
                            st.transitions += 1
                            st.evaluations += 1
                        blk = y.blocks.get((c,))
                        if set(y.blocks) != {(c,)} or blk is None or not exact_equal(blk, np.arange(1, k + 1, dtype=float)):
                            fails.append(("C16/from_dense[positions]/vector", f"{sym} labels {labels}: block {None if blk is None else np.asarray(blk).tolist()} expected {list(range(1, k + 1))}"))
                    except Exception as ex:
                        fails.append((f"C16/from_dense[positions]/raised-{type(ex).__name__}", f"{sym} labels {labels}: {ex}"))
                    if dual or k == 4:
                        continue
                    # matrix: rows run through the arrangement, columns interleaved; total charge identity with (row, col*) directions
                    cols = [c, other, c, other]
                    M = np.zeros((N, 4))
                    tag = 1
                    want = {}
                    for rc in (c, other):
                        rows = [i for i in range(N) if labels[i] == rc]
                        cc = [j for j in range(4) if cols[j] == rc]
                        blkw = np.zeros((len(rows), len(cc)))
                        for a, i in enumerate(rows):
                            for b, j in enumerate(cc):
                                M[i, j] = tag
                                blkw[a, b] = tag
                                tag += 1
                        want[(rc, rc)] = blkw
                    try:
                        with warnings.catch_warnings():
                            warnings.simplefilter("error")
                            y = klass.from_dense(M, [labels, cols], [False, True], charge=e, symmetry=sym)
                        if st is not None:
                            st.transitions += 1
                            st.evaluations += 1
                        if set(y.blocks) != set(want) or not all(exact_equal(y.blocks[s_], want[s_]) for s_ in want):
                            fails.append(("C16/from_dense[positions]/matrix", f"{sym} row labels {labels}"))
                    except Exception as ex:
                        fails.append((f"C16/from_dense[positions]/raised-{type(ex).__name__}", f"{sym} row labels {labels}: {ex}"))
    return fails


def groups(ctx):
    out = []
    for sym in G.SYMS:
        out.append((sym, "positions", 0, 0, 1))
        for ferm in (False, True):
            for n in (0, 1, 2, 3):
                nch = {0: 1, 1: 1, 2: 2, 3: 8 if not ctx.thorough else 32}[n]
                for k in range(nch):
                    out.append((sym, ferm, n, k, nch))
    return out


def run_group(ctx, group):
    sym, ferm, n, k, nch = group
    st = Stats()
    reset_library_state()
    if ferm == "positions":
        for sig, det in position_failures(sym, st):
            st.violation(sig, {"positions": sym}, det)
        st.states += 1
        st.traces += 1
        return st
    menu = "core" if n <= 2 else ("core" if ctx.thorough else "m3")
    sp = "all" if n <= 1 else "le1"
    i = -1
    for indices in U.index_tuples(sym, n, menu, "b"):
        for d in U.arrays_over(sym, indices, "all+empty" if n <= 1 else "all", sp, ferm=ferm, label=9, phases=("probe0" if ferm else "none")):
            i += 1
            if i % nch != k:
                continue
            fails = construct_failures(sym, ferm, indices, d["charge"], d["sectors"], st)
            fails += dense_failures(d, ctx.seed, st)
            st.evaluations += 1
            st.states += 1
            st.traces += 1
            if any(duals_of(indices)) and len(d["sectors"]) >= 2:
                st.nontrivial += 1
            for sig, det in fails:
                st.violation(sig, {"x": d}, det)
            if len(d["sectors"]) >= 2 and not st.samples:
                st.sample({"x": describe(build(d))})
    return st


def replay(ctx, case):
    if "positions" in case:
        return position_failures(case["positions"])
    d = case["x"]
    return construct_failures(d["sym"], d["ferm"], d["indices"], d["charge"], d["sectors"]) + dense_failures(d, ctx.seed)
