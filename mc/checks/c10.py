"""C10 - conjugation gives the bra: norms are positive and adjoint laws hold.

E-enum over fermionic arrays (complex Gaussian-integer tags, exact) for the
single-array laws, and the C04 route explorer for <psi|psi> of whole networks
conjugated tensor by tensor."""

import itertools

import numpy as np

from .. import groups as G
from .. import networks as N
from .. import ref_graded as RG
from .. import universe as U
from ..arrays import build, describe, embed, exact_equal, frame_of, gt_of, index_key, oddpos_key
from ..runner import Stats, reset_library_state
from . import c04

PROP = "C10"
BUDGET = {"quick": 420, "thorough": 3600}
META = {
    "rule": "single arrays: fermionic arrays n<=3 (all symmetries, every direction pattern, even / odd with a label, sparsity patterns, pending-sign tables, complex Gaussian-integer and real "
    "tags) x phase_dual in {False, True}: <conj x, x>, <x, conj x>, the same with dagger and reversed axes, conj.conj = dagger.dagger = identity, dagger == conj then fermionic reversal, conj == "
    "R-graded bra; networks: pairs / 3-chains / triangles with dangling legs, every bond orientation x dangling directions x parity and label assignment: tensor-by-tensor default conj, phase_flip of "
    "the dangling legs that were bra-like, <psi|psi> along every route of the doubled network (2 tensors: every route; 3 tensors: every linear order from every starting pair in both operand orders, plus ket-network x bra-network joins) == squared norm of the contracted ket network. "
    "non-trivial = odd parity or at least one dual index / bra-like dangling leg",
    "bounds": {"quick": "arrays: n<=2 complete menus, n=3 menu m2; networks: 2-3 tensors, route options reduced for the 6-tensor doubled triangle", "thorough": "n=3 menu m3; both index tables"},
    "assumptions": [
        "squared norm = sum of |entry|^2 of the stored blocks, computed by the harness; exact arithmetic on Gaussian integers",
        "the norm law is demanded when every index is ket-like or phase_dual=True (as stated); not for all-bra arrays with phase_dual=False",
    ],
}


def norm2(x):
    """exact for (Gaussian) integer tags: no hypot rounding"""
    tot = 0.0
    for b in x.blocks.values():
        b = np.asarray(b)
        tot = tot + (b.real ** 2).sum() + (b.imag ** 2).sum()
    return tot


def scalar_of(c):
    import symmray as sr

    if isinstance(c, sr.AbelianArray):
        c = c.phase_sync() if c.fermionic else c
        return c.blocks.get((), 0.0)
    return c


def array_failures(d, st=None):
    import symmray as sr

    fails = []
    x = build(d)
    n = x.ndim
    g = gt_of(x)
    X = embed(x)
    fr = frame_of(x)
    n2 = norm2(x)
    all_ket = not any(x.duals)
    # the norm law is stated for labels as users give them (plain, ket-like); a label that is already conjugated
    # (an array that contains a conjugated tensor) behaves like a bra leg and is outside the law
    labels_ket = not any(o.dual for o in x.oddpos)
    rev = tuple(range(n - 1, -1, -1))
    keys = tuple(index_key(i) for i in x.indices)
    nontrivial = bool(x.oddpos) or any(x.duals)

    def run(name, fn):
        try:
            r = fn()
            if st is not None:
                st.transitions += 1
            return r
        except Exception as e:
            fails.append((f"C10/{name}/raised-{type(e).__name__}", str(e)))
            return None

    for pd in (False, True):
        tag = f"phase_dual={pd}"
        xc = run(f"conj[{tag}]", lambda: x.conj(phase_dual=pd))
        xd = run(f"dagger[{tag}]", lambda: x.dagger(phase_dual=pd))
        if xc is not None:
            # conj == R-graded bra
            ref = RG.conj(g, pd)
            if tuple(xc.duals) != tuple(ref.duals) or xc.charge != G.neg(d["sym"], x.charge) or oddpos_key(xc) != tuple(ref.labels):
                fails.append((f"C10/conj[{tag}]/structure", f"duals {xc.duals} charge {xc.charge} labels {oddpos_key(xc)} expected {ref.duals} {ref.labels}"))
            elif not exact_equal(embed(xc), ref.arr):
                fails.append((f"C10/conj[{tag}]/value", "conj differs from the R-graded bra"))
            # norms
            if (all_ket or pd) and labels_ket:
                for nm, fn in (("<conj x,x>", lambda: sr.tensordot(xc, x, n)), ("<x,conj x>", lambda: sr.tensordot(x, xc, n)),
                               ("<conj x,x>[blockwise]", lambda: sr.tensordot(xc, x, (tuple(range(n)), tuple(range(n))), mode="blockwise"))):
                    v = run(f"norm[{tag}]", fn)
                    if v is not None and scalar_of(v) != n2:
                        fails.append((f"C10/norm/{nm}/{tag}", f"{scalar_of(v)!r} expected {n2!r} (duals {x.duals}, parity {x.parity})"))
        if xd is not None:
            if xc is not None:
                # dagger == conj followed by the fermionic reversal of axes
                want = run(f"conj.transpose[{tag}]", lambda: xc.transpose(rev))
                if want is not None:
                    if tuple(index_key(i) for i in xd.indices) != tuple(index_key(i) for i in want.indices) or xd.charge != want.charge or oddpos_key(xd) != oddpos_key(want):
                        fails.append((f"C10/dagger-vs-conj-transpose/{tag}/structure", ""))
                    elif not exact_equal(embed(xd), embed(want)):
                        fails.append((f"C10/dagger-vs-conj-transpose/{tag}/value", f"dagger({tag}) differs from conj({tag}).transpose(reversed)"))
            if (all_ket or pd) and labels_ket:
                for nm, fn in (("<dagger x,x>", lambda: sr.tensordot(xd, x, (tuple(range(n)), rev))), ("<x,dagger x>", lambda: sr.tensordot(x, xd, (rev, tuple(range(n)))))):
                    v = run(f"norm-dagger[{tag}]", fn)
                    if v is not None and scalar_of(v) != n2:
                        fails.append((f"C10/norm/{nm}/{tag}", f"{scalar_of(v)!r} expected {n2!r} (duals {x.duals}, parity {x.parity})"))
    # the bra taken on a twice-fused copy and unfused again must still pair with x to the squared norm
    if n == 3 and all_ket and labels_ket:
        w = run("fuse.fuse.conj.unfuse.unfuse", lambda: x.fuse((0, 1)).fuse((0, 1)).conj().unfuse(0).unfuse(0))
        if w is not None:
            for nm, fn in (("<x,w>", lambda: sr.tensordot(x, w, n)), ("<w,x>", lambda: sr.tensordot(w, x, n))):
                v = run("norm[nested-fuse-conj]", fn)
                if v is not None and scalar_of(v) != n2:
                    fails.append((f"C10/norm-nested-fuse-conj/{nm}", f"{scalar_of(v)!r} expected {n2!r}"))
    # involutions (default options)
    for nm, fn in (("conj.conj", lambda: x.conj().conj()), ("dagger.dagger", lambda: x.dagger().dagger()), ("H.H", lambda: x.H.H)):
        y = run(nm, fn)
        if y is None:
            continue
        if tuple(index_key(i) for i in y.indices) != keys or y.charge != x.charge or oddpos_key(y) != oddpos_key(x):
            fails.append((f"C10/{nm}/structure", "indices, charge or labels not restored"))
        elif not exact_equal(embed(y), X):
            fails.append((f"C10/{nm}/value", "not the identity"))
    return fails, nontrivial


# --------------------------------------------------------------------------- #
# networks

NET_TOPOS = ["pair1-d", "pair2-d", "chain3-d", "chain3-dm", "triangle-d"]


def doubled_failures(spec, st=None, thorough=False):
    """<psi|psi> of a network conjugated tensor by tensor"""
    import symmray as sr

    topo, descs = c04.build_network(spec)
    arrs = [build(d) for d in descs]
    if any(not a.blocks for a in arrs):
        return [], False
    occ, bonds, dangling = N.leg_info(topo)
    nt = len(topo)
    # the ket network contracted along one fixed route, dangling legs in sorted order
    nodes = [N.Node(a, legs) for a, legs in zip(arrs, topo)]
    counter = {"contract": 0, "trace": 0}
    res = []
    simple = dict(both_orders=False, listings=False, partial=False, pre=0, pre_both=False, modes=("blockwise",))
    try:
        N.explore_routes(sr, nodes, list(dangling), simple, counter, res)
    except Exception as e:
        return [(f"C10/network/ket-route-raised-{type(e).__name__}", str(e))], False
    if not res:
        return [], False
    psi = res[0][0]
    n2 = norm2(psi.phase_sync())
    # bra network: default conj of every tensor, bond names primed, dangling legs shared with the ket
    bra_arrs = []
    bra_topo = []
    for a, legs in zip(arrs, topo):
        c = a.conj()
        flips = [k for k, nm in enumerate(legs) if nm in dangling and a.indices[k].dual]
        if flips:
            c = c.phase_flip(*flips)
        bra_arrs.append(c)
        bra_topo.append(tuple(nm if nm in dangling else nm + "'" for nm in legs))
    full_arrs = bra_arrs + arrs
    full_topo = tuple(bra_topo) + tuple(topo)
    if nt <= 2:
        opts = dict(both_orders=True, listings=True, partial=False, pre=0, pre_both=False, modes=("fused", "blockwise"))
    else:
        # six tensors: every linear (caterpillar) order from every starting pair, both operand orders, plus
        # 'ket network and bra network first, then join' in every internal order
        opts = dict(both_orders=True, listings=False, partial=False, pre=0, pre_both=False, caterpillar=True,
                    modes=("fused", "blockwise") if thorough else ("fused",))
    counter = {"contract": 0, "trace": 0}
    results = []
    try:
        N.explore_routes(sr, [N.Node(a, l) for a, l in zip(full_arrs, full_topo)], [], opts, counter, results)
        if nt >= 3:
            sub = dict(both_orders=False, listings=False, partial=False, pre=0, pre_both=False, modes=("blockwise",))
            kets, bras = [], []
            N.explore_routes(sr, [N.Node(a, l) for a, l in zip(arrs, topo)], list(dangling), sub, counter, kets)
            N.explore_routes(sr, [N.Node(a, l) for a, l in zip(bra_arrs, bra_topo)], list(dangling), sub, counter, bras)
            nd = len(dangling)
            for (ka, _), (ba, _) in itertools.product(kets, bras):
                for mode in ("fused", "blockwise"):
                    results.append((sr.tensordot(ba, ka, (tuple(range(nd)), tuple(range(nd))), mode=mode, preserve_array=True), ("bra-net", "ket-net", mode)))
                    results.append((sr.tensordot(ka, ba, (tuple(range(nd)), tuple(range(nd))), mode=mode, preserve_array=True), ("ket-net", "bra-net", mode)))
    except Exception as e:
        return [(f"C10/network/route-raised-{type(e).__name__}", str(e))], False
    if st is not None:
        st.transitions += counter["contract"] + counter["trace"]
        st.evaluations += len(results)
        st.traces += len(results)
    fails = []
    for arr, trail in results:
        v = scalar_of(arr)
        if v != n2:
            fails.append(("C10/network/norm", f"<psi|psi> = {v!r} along {trail}, ||psi||^2 = {n2!r}"))
            break
    for arr, trail in results:
        if oddpos_key(arr):
            fails.append(("C10/network/labels-remain", f"{oddpos_key(arr)} along {trail}"))
            break
    nontrivial = any(a.oddpos for a in arrs) or any(a.indices[k].dual for a, legs in zip(arrs, topo) for k, nm in enumerate(legs) if nm in dangling)
    return fails, nontrivial


def array_stream(ctx, sym, n):
    if n <= 1:
        menu, sp, ph, charges = "core", "all", "all", "all"
    elif n == 2:
        menu, sp, ph, charges = "m3", "le1", "probe", "all"
    else:
        menu, sp, ph, charges = ("m3" if ctx.thorough else "m2"), "probe", "probe0", "two"
    for j, d in enumerate(U.arrays(sym, n, menu, "a", charges, sp, ferm=True, phases=ph, label=6)):
        yield d
        if n <= 2 and j % 3 == 0:
            # arrays that are themselves products of odd tensors: several labels (some already conjugated)
            odd = d["oddpos"] is not None
            for labs in (((1, False), (4, False), (6, False)), ((5, True), (2, False), (3, False))) if odd else (((1, False), (4, False)), ((3, True), (2, False))):
                yield dict(d, oddpos=("L", labs))


def groups(ctx):
    out = []
    for sym in G.SYMS:
        for n in (0, 1, 2, 3):
            nch = {0: 1, 1: 1, 2: 4, 3: 8}[n]
            for k in range(nch):
                out.append(("array", sym, n, k, nch))
        for tname in NET_TOPOS:
            nch = {"triangle-d": 24, "chain3-d": 12, "chain3-dm": 6}.get(tname, 2)
            for table in (0, 1) if ctx.thorough else (0,):
                for k in range(nch):
                    out.append(("net", sym, tname, table, k, nch))
    return out


def run_group(ctx, group):
    st = Stats()
    reset_library_state()
    if group[0] == "array":
        _, sym, n, k, nch = group
        for i, d in enumerate(array_stream(ctx, sym, n)):
            if i % nch != k:
                continue
            d = dict(d, dtype="complex128" if (i // nch) % 3 else "float64")
            fails, nt = array_failures(d, st)
            st.evaluations += 1
            st.states += 1
            st.traces += 1
            st.nontrivial += int(nt)
            for sig, det in fails:
                st.violation(sig, {"kind": "array", "x": d}, det)
            if nt and len(d["sectors"]) >= 2 and not st.samples:
                st.sample({"x": describe(build(d))})
        return st
    _, sym, tname, table, k, nch = group
    slice_mod = 2 if (not ctx.thorough and len(N.TOPOLOGIES[tname]) >= 3) else 1
    if slice_mod > 1:
        st.counters["capped"] += 1
        st.notes.append("quick: half of the 3-tensor networks per seed (residue slice); all in thorough")
    for i, spec in enumerate(c04.networks(ctx, sym, tname, table)):
        if i % nch != k:
            continue
        if slice_mod > 1 and (i // nch) % slice_mod != ctx.seed % slice_mod:
            continue
        fails, nt = doubled_failures(spec, st, ctx.thorough)
        st.states += 1
        st.nontrivial += int(nt)
        for sig, det in fails:
            st.violation(sig, {"kind": "net", "spec": spec}, det)
        if nt and not st.samples:
            topo, descs = c04.build_network(spec)
            st.sample({"topology": tname, "legs": [list(l) for l in topo], "tensors": [describe(build(dd)) for dd in descs]})
    return st


def replay(ctx, case):
    if case["kind"] == "array":
        return array_failures(case["x"])[0]
    return doubled_failures(case["spec"], thorough=True)[0]
