"""R-graded: the Grassmann *word model* of a fermionic array (DESIGN 4.2).

No symmray import.  A graded tensor is a dense array plus, per axis, the
parity of every linear position, the direction of each axis and a tuple of
odd 'label' generators standing to the left of the axes."""

import functools
import itertools

import numpy as np


@functools.lru_cache(maxsize=1 << 16)
def _perm_sign_seq(seq):
    inv = 0
    n = len(seq)
    for i in range(n):
        si = seq[i]
        for j in range(i + 1, n):
            if si > seq[j]:
                inv += 1
    return -1 if inv % 2 else 1


def perm_sign(src, dst):
    """sign of reordering the list ``src`` of distinct generators into ``dst``"""
    pos = {g: i for i, g in enumerate(src)}
    return _perm_sign_seq(tuple(pos[g] for g in dst))


class GT:
    __slots__ = ("arr", "pars", "duals", "labels")

    def __init__(self, arr, pars, duals, labels=()):
        self.arr = np.asarray(arr)
        self.pars = [np.asarray(p) for p in pars]
        self.duals = tuple(bool(d) for d in duals)
        self.labels = tuple(labels)

    @property
    def ndim(self):
        return self.arr.ndim

    def masks(self):
        return [(np.flatnonzero(p == 0), np.flatnonzero(p == 1)) for p in self.pars]


class _Desc:
    """reversed ordering wrapper"""

    __slots__ = ("v",)

    def __init__(self, v):
        self.v = v

    def __lt__(self, o):
        return self.v > o.v

    def __eq__(self, o):
        return self.v == o.v


def label_key(l):
    lab, dual = l
    # documented order: bra (dual) labels first in descending label order, then ket labels ascending
    return (0, _Desc(lab)) if dual else (1, lab)


def canon_labels(labels):
    """sort by the documented order, then annihilate adjacent conjugate pairs.
    Returns (labels', sign)."""
    src = [(i, l) for i, l in enumerate(labels)]
    dst = sorted(src, key=lambda t: label_key(t[1]))
    s = perm_sign(src, dst)
    out = [l for _, l in dst]
    i = 0
    while i < len(out) - 1:
        (la, da), (lb, db) = out[i], out[i + 1]
        if la == lb and da != db:
            if db:  # (x-, x+): ket-bra adjacency
                s = -s
            del out[i : i + 2]
            i = max(0, i - 1)
        else:
            i += 1
    return tuple(out), s


def full_canon(labels):
    """normal form used to compare two label representations of the same value: canon_labels, then every
    remaining conjugate pair (x+ ... x-) is brought adjacent (one sign per label crossed) and annihilated (+1)"""
    out, s = canon_labels(labels)
    out = list(out)
    changed = True
    while changed:
        changed = False
        for i, (la, da) in enumerate(out):
            if not da:
                continue
            for j in range(i + 1, len(out)):
                lb, db = out[j]
                if lb == la and not db:
                    if (j - i - 1) % 2:
                        s = -s
                    del out[j]
                    del out[i]
                    changed = True
                    break
            if changed:
                break
    return tuple(out), s


def _sel(ms, pat):
    return [ms[k][p] for k, p in enumerate(pat)]


def transpose(g, perm):
    perm = tuple(perm)
    n = g.ndim
    out = np.zeros_like(g.arr.transpose(perm))
    ms = g.masks()
    for pat in itertools.product((0, 1), repeat=n):
        sel = _sel(ms, pat)
        if any(len(m) == 0 for m in sel):
            continue
        src = [k for k in range(n) if pat[k]]
        dst = [k for k in perm if pat[k]]
        s = perm_sign(src, dst)
        sub = g.arr[np.ix_(*sel)].transpose(perm) * s
        out[np.ix_(*[sel[k] for k in perm])] = sub
    return GT(out, [g.pars[k] for k in perm], [g.duals[k] for k in perm], g.labels)


def contract(a, b, axes_a, axes_b):
    """W = [LA][a axes][LB][b axes]  ->  [canonical labels][free a][free b] prod_pairs (bra, ket)"""
    na, nb = a.ndim, b.ndim
    axes_a = [x % na for x in axes_a]
    axes_b = [x % nb for x in axes_b]
    left = [k for k in range(na) if k not in axes_a]
    right = [k for k in range(nb) if k not in axes_b]
    shape = [a.arr.shape[k] for k in left] + [b.arr.shape[k] for k in right]
    dt = object if (a.arr.dtype == object or b.arr.dtype == object) else np.result_type(a.arr, b.arr)
    out = np.zeros(shape, dtype=dt)
    LA = [("L", 0, i) for i, _ in enumerate(a.labels)]
    LB = [("L", 1, i) for i, _ in enumerate(b.labels)]
    newlabels, lsign = canon_labels(a.labels + b.labels)
    ma, mb_ = a.masks(), b.masks()
    for pa in itertools.product((0, 1), repeat=na):
        sa = _sel(ma, pa)
        if any(len(m) == 0 for m in sa):
            continue
        A = a.arr[np.ix_(*sa)] if na else a.arr
        for pr in itertools.product((0, 1), repeat=len(right)):
            pb = [None] * nb
            for k, v in zip(right, pr):
                pb[k] = v
            for ka, kb in zip(axes_a, axes_b):
                pb[kb] = pa[ka]
            sb = _sel(mb_, pb)
            if any(len(m) == 0 for m in sb):
                continue
            W = LA + [("a", k) for k in range(na) if pa[k]] + LB + [("b", k) for k in range(nb) if pb[k]]
            T = LA + LB + [("a", k) for k in left if pa[k]] + [("b", k) for k in right if pb[k]]
            for ka, kb in zip(axes_a, axes_b):
                if pa[ka]:
                    if a.duals[ka]:  # a's leg is the bra
                        T += [("a", ka), ("b", kb)]
                    else:
                        T += [("b", kb), ("a", ka)]
            s = perm_sign(W, T) * lsign
            B = b.arr[np.ix_(*sb)] if nb else b.arr
            C = np.tensordot(A, B, axes=(axes_a, axes_b)) * s
            idx = [sa[k] for k in left] + [sb[k] for k in right]
            if idx:
                out[np.ix_(*idx)] += C
            else:
                out = out + C
    return GT(
        out,
        [a.pars[k] for k in left] + [b.pars[k] for k in right],
        [a.duals[k] for k in left] + [b.duals[k] for k in right],
        newlabels,
    )


def einsum(g, eq):
    lhs, rhs = eq.split("->")
    n = g.ndim
    pairs = []
    for q in sorted(set(lhs)):
        js = [j for j, c in enumerate(lhs) if c == q]
        if q not in rhs:
            assert len(js) == 2
            pairs.append(tuple(js))
    keep = [lhs.index(q) for q in rhs]
    out = np.zeros([g.arr.shape[k] for k in keep], dtype=g.arr.dtype)
    L = [("L", 0, i) for i, _ in enumerate(g.labels)]
    ms = g.masks()
    for pat in itertools.product((0, 1), repeat=n):
        if any(pat[i] != pat[j] for i, j in pairs):
            continue
        sel = _sel(ms, pat)
        if any(len(m) == 0 for m in sel):
            continue
        W = L + [("a", k) for k in range(n) if pat[k]]
        T = L + [("a", k) for k in keep if pat[k]]
        for i, j in pairs:
            if pat[i]:
                bra, ket = (i, j) if g.duals[i] else (j, i)
                T += [("a", bra), ("a", ket)]
        s = perm_sign(W, T)
        sub = g.arr[np.ix_(*sel)]
        r = np.einsum(eq, sub) * s
        idx = [sel[k] for k in keep]
        if idx:
            out[np.ix_(*idx)] += r
        else:
            out = out + r
    return GT(out, [g.pars[k] for k in keep], [g.duals[k] for k in keep], g.labels)


def conj(g, phase_dual=False):
    """the bra of g: word reversed and conjugated, re-expressed in canonical
    layout [labels-bar reversed][axes in original order]; data layout kept."""
    n = g.ndim
    out = np.zeros_like(g.arr)
    Lr = [("L", i) for i in range(len(g.labels))]
    ms = g.masks()
    for pat in itertools.product((0, 1), repeat=n):
        sel = _sel(ms, pat)
        if any(len(m) == 0 for m in sel):
            continue
        odd = [("a", k) for k in range(n) if pat[k]]
        W = odd[::-1] + Lr
        T = Lr + odd
        s = perm_sign(W, T)
        if phase_dual:
            s *= (-1) ** sum(pat[k] for k in range(n) if g.duals[k])
        out[np.ix_(*sel)] = np.conj(g.arr[np.ix_(*sel)]) * s
    labels = tuple((lab, not d) for lab, d in reversed(g.labels))
    return GT(out, g.pars, [not d for d in g.duals], labels)


def dagger(g, phase_dual=False):
    c = conj(g, phase_dual)
    return transpose(c, tuple(range(g.ndim - 1, -1, -1)))


def network(tensors, legs, out_legs):
    """One-shot evaluation of a whole network.
    tensors: list of GT; legs: list of tuples of leg names per tensor (each bond name appears on exactly two
    legs with opposite directions); out_legs: names of dangling legs in the requested order.
    Value = coefficient after bringing the concatenated word into [canonical labels][out legs] prod (bra, ket)."""
    n = len(tensors)
    names = {}
    for t, lg in enumerate(legs):
        for k, nm in enumerate(lg):
            names.setdefault(nm, []).append((t, k))
    bonds = [nm for nm, occ in names.items() if len(occ) == 2]
    all_labels = tuple(l for g in tensors for l in g.labels)
    newlabels, lsign = canon_labels(all_labels)
    # parity assignment per leg name
    leg_names = list(names)
    shape = [tensors[names[nm][0][0]].arr.shape[names[nm][0][1]] for nm in out_legs]
    dt = object if any(g.arr.dtype == object for g in tensors) else np.result_type(*[g.arr for g in tensors])
    out = np.zeros(shape, dtype=dt)
    masks = [g.masks() for g in tensors]
    letters = {nm: chr(ord("a") + i) for i, nm in enumerate(leg_names)}
    eq = ",".join("".join(letters[nm] for nm in lg) for lg in legs) + "->" + "".join(letters[nm] for nm in out_legs)
    for pat in itertools.product((0, 1), repeat=len(leg_names)):
        par = dict(zip(leg_names, pat))
        subs = []
        ok = True
        for t, lg in enumerate(legs):
            sel = [masks[t][k][par[nm]] for k, nm in enumerate(lg)]
            if any(len(m) == 0 for m in sel):
                ok = False
                break
            subs.append((tensors[t].arr[np.ix_(*sel)] if sel else tensors[t].arr, sel))
        if not ok:
            continue
        W = []
        off = 0
        for t, g in enumerate(tensors):
            W += [("L", off + i) for i in range(len(g.labels))]
            off += len(g.labels)
            W += [("x", t, k) for k, nm in enumerate(legs[t]) if par[nm]]
        T = [("L", i) for i in range(off)]
        for nm in out_legs:
            if par[nm]:
                t, k = names[nm][0]
                T.append(("x", t, k))
        for nm in bonds:
            if par[nm]:
                (t1, k1), (t2, k2) = names[nm]
                if tensors[t1].duals[k1]:
                    T += [("x", t1, k1), ("x", t2, k2)]
                else:
                    T += [("x", t2, k2), ("x", t1, k1)]
        s = perm_sign(W, T) * lsign
        if dt == object:
            r = _einsum_object(eq, [sb[0] for sb in subs])
        else:
            r = np.einsum(eq, *[sb[0] for sb in subs])
        idx = []
        for nm in out_legs:
            t, k = names[nm][0]
            idx.append(subs[t][1][k])
        if idx:
            out[np.ix_(*idx)] += r * s
        else:
            out = out + r * s
    duals = []
    pars = []
    for nm in out_legs:
        t, k = names[nm][0]
        duals.append(tensors[t].duals[k])
        pars.append(tensors[t].pars[k])
    return GT(out, pars, duals, newlabels)


def _einsum_object(eq, ops):
    # pairwise tensordot fallback for object dtype (small)
    return np.einsum(eq, *ops, optimize=False)
