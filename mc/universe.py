"""Enumerators for the bounded universe (DESIGN section 3): single arrays and
contractible pairs, as descriptors."""

import itertools

from . import groups as G
from .arrays import arrd, charges_for, conj_ixd, duals_of, ixd, order_variants, sparsity_patterns, tables_of

MENU3 = {
    "Z2": [(1,), (0, 1)],
    "Z4": [(1,), (0, 1), (0, 1, 2)],
    "U1": [(1,), (0, 1), (-1, 0, 1)],
    "Z2Z2": [((0, 1),), ((0, 0), (0, 1)), ((0, 0), (0, 1), (1, 1))],
    "U1U1": [((1, 0),), ((0, 0), (0, 1)), ((0, 0), (1, 0), (1, 1))],
}
MENU2 = {s: m[:2] if s != "Z2" else m for s, m in MENU3.items()}
MENU1 = {s: m[1:2] for s, m in MENU3.items()}


def get_menu(sym, name):
    if name == "core":
        return G.M_CORE[sym]
    if name == "m3":
        return MENU3[sym]
    if name == "m2":
        return MENU2[sym]
    if name == "m1":
        return MENU1[sym]
    if name.startswith("full"):
        return G.m_full(sym, int(name[4:] or 3))
    raise ValueError(name)


def pick_charges(sym, indices, mode):
    cl = charges_for(sym, indices)
    if mode == "all":
        return cl
    if mode == "all+empty":
        return charges_for(sym, indices, include_empty=True)
    if mode == "two":
        # the identity if reachable else the first, plus the first odd one
        e = G.identity(sym)
        out = [e] if e in cl else cl[:1]
        for c in cl:
            if G.parity(sym, c) == 1:
                out.append(c)
                break
        else:
            for c in cl:
                if c not in out:
                    out.append(c)
                    break
        return out
    if mode == "one":
        e = G.identity(sym)
        return [e] if e in cl else cl[:1]
    raise ValueError(mode)


def phase_patterns(stored, mode):
    """subsets of the stored sectors carrying a pending -1"""
    stored = tuple(sorted(stored))
    n = len(stored)
    if mode == "none" or n == 0:
        return [()]
    if mode == "all":
        return [sub for r in range(n + 1) for sub in itertools.combinations(stored, r)]
    if mode == "probe":
        out = [(), stored]
        if n > 1:
            out.append(stored[:1])
            out.append(stored[1::2])
        return list(dict.fromkeys(out))
    if mode == "probe0":
        return list(dict.fromkeys([(), stored[::2]]))
    if mode == "one":
        return [stored[::2]]
    raise ValueError(mode)


def arrays_over(sym, indices, charges="all", sparsity="le1", orders=("sorted",), phases="none", label=None, **kw):
    """all (charge, stored sectors in order[, pending signs]) variants over fixed index descriptors.
    ``label`` is used as oddpos when the charge is odd (fermionic descriptors only)."""
    ferm = kw.get("ferm", False)
    nferm = 0
    for charge in pick_charges(sym, indices, charges):
        valid = G.valid_sectors(sym, tables_of(indices), duals_of(indices), charge)
        odd = G.parity(sym, charge) == 1
        for stored in sparsity_patterns(valid, sparsity):
            for ordered in order_variants(stored, orders):
                if not ferm:
                    yield arrd(sym, indices, charge, ordered, **kw)
                    continue
                for ph in phase_patterns(stored, phases):
                    d = arrd(sym, indices, charge, ordered, phases=ph, oddpos=(label if odd else None), **kw)
                    nferm += 1
                    if nferm % 3 == 0 and len(ph) < len(ordered):
                        # representation of the sign table: trivial signs need not be stored, but may be - every third
                        # fermionic descriptor stores an explicit +1 for each block without a pending sign
                        d["explicit_plus"] = True
                    yield d


def index_tuples(sym, n, menu, size="a", duals="all", axis0=0):
    menu = get_menu(sym, menu) if isinstance(menu, str) else menu
    for subsets in itertools.product(menu, repeat=n):
        dl = itertools.product((False, True), repeat=n) if duals == "all" else [tuple(duals)]
        for ds in dl:
            yield tuple(ixd(G.size_table(size, cs, axis0 + ax), d) for ax, (cs, d) in enumerate(zip(subsets, ds)))


def arrays(sym, n, menu="m3", size="a", charges="all", sparsity="le1", orders=("sorted",), **kw):
    for indices in index_tuples(sym, n, menu, size):
        yield from arrays_over(sym, indices, charges, sparsity, orders, **kw)


def permute_desc(d, perm):
    """descriptor-level (plain, non fermionic) transpose"""
    perm = tuple(perm)
    new = dict(d)
    new["indices"] = tuple(d["indices"][p] for p in perm)
    new["sectors"] = tuple(tuple(s[p] for p in perm) for s in d["sectors"])
    new["phases"] = tuple(tuple(s[p] for p in perm) for s in d["phases"])
    return new


def perm_menu(n, which="all"):
    perms = list(itertools.permutations(range(n)))
    if which == "all" or n <= 2:
        return perms
    ident = tuple(range(n))
    rev = ident[::-1]
    rot = ident[1:] + ident[:1]
    out = []
    for p in (ident, rev, rot):
        if p not in out:
            out.append(p)
    return out


def partners(sym, a, axes_a, n_free, menu="m3", size="a", charges="all", sparsity="le1", orders=("sorted",), perms="all", **kw):
    """all b arrays contractible with a over axes_a: b's first len(axes_a) indices are the conjugates
    of a's contracted ones, the rest come from the menu; then every axis placement via descriptor permutation.
    yields (bdesc, axes_b)"""
    ncon = len(axes_a)
    con = tuple(conj_ixd(a["indices"][ax]) for ax in axes_a)
    for free in index_tuples(sym, n_free, menu, size, axis0=ncon):
        indices = con + free
        for b0 in arrays_over(sym, indices, charges, sparsity, orders, **kw):
            for perm in perm_menu(ncon + n_free, perms):
                b = permute_desc(b0, perm)
                axes_b = tuple(perm.index(k) for k in range(ncon))
                yield b, axes_b


def axes_choices(n, ncon, which="all"):
    out = list(itertools.permutations(range(n), ncon))
    if which == "all":
        return out
    # ordered selections: keep ascending, descending
    keep = []
    for c in out:
        if list(c) == sorted(c) or list(c) == sorted(c, reverse=True):
            keep.append(c)
    return keep


def pair_arrays(sym, charges="two", sparsity="le1", **kw):
    """2-index arrays whose indices are an index and its conjugate, in both direction orders: the inputs on which
    eigh / solve / trace / einsum('aa->') apply to the array itself (the per-axis size tables never produce such a pair)"""
    for rest in index_tuples(sym, 1, "m2", "a"):
        for first_dual in (True, False):
            lead = (rest[0][0], first_dual, None)
            yield from arrays_over(sym, (lead, conj_ixd(lead)), charges, sparsity, **kw)
