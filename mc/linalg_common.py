"""Matrix universe and oracles shared by C11 (factor structure / reconstruction)
and C12 (spectra / solutions equal the dense ones)."""

import itertools

import numpy as np

from . import groups as G
from . import universe as U
from .arrays import arrd, build, conj_ixd, describe, duals_of, embed, frame_of, index_key, index_plain_key, ixd, tables_of
from .audit import audit

TOL = 1e-9

SIZE_PATTERNS = {
    "tall": ((3, 3, 3), (2, 2, 2)),
    "wide": ((2, 2, 2), (3, 3, 3)),
    "square": ((2, 2, 2), (2, 2, 2)),
    "mixed": ((1, 2, 3), (2, 3, 1)),
    "thin": ((1, 1, 1), (3, 2, 1)),
    "ones": ((1, 1, 1), (1, 1, 1)),
}


def close(a, b, scale=None):
    a, b = np.asarray(a), np.asarray(b)
    if a.shape != b.shape:
        return False
    s = scale if scale is not None else max(1.0, float(np.max(np.abs(b))) if b.size else 1.0)
    return bool(np.all(np.abs(a - b) <= TOL * s * 10))


def matrix_descs(ctx, sym, ferm, kind="general"):
    """kind: general | hermitian (square, column index = conj(row index), charge zero)"""
    menu = U.get_menu(sym, "core" if ctx.thorough else "m3")
    e = G.identity(sym)
    idx = 0
    if kind == "general":
        for rows, cols in itertools.product(menu, repeat=2):
            for pname, (rs, cs) in SIZE_PATTERNS.items():
                rt = {c: rs[k % 3] for k, c in enumerate(sorted(rows))}
                ct = {c: cs[k % 3] for k, c in enumerate(sorted(cols))}
                for duals in itertools.product((False, True), repeat=2):
                    indices = (ixd(rt, duals[0]), ixd(ct, duals[1]))
                    kw = dict(ferm=True, phases="probe0", label=5) if ferm else {}
                    for d in U.arrays_over(sym, indices, "all", "le1", **kw):
                        if not d["sectors"]:
                            continue
                        idx += 1
                        fill = ("rand", "rand", "rank1", "zerocol", "zeroblock", "csym", "cdiag")[idx % 7]
                        dtype = ("float64", "complex128")[(idx // 3) % 2]
                        yield dict(d, fill=(fill, idx), dtype=dtype, _pattern=pname)
    else:
        for rows in menu:
            for sizes in ((2, 2, 2), (1, 2, 3), (3, 1, 2)):
                rt = {c: sizes[k % 3] for k, c in enumerate(sorted(rows))}
                for dual in (False, True):
                    row = ixd(rt, dual)
                    indices = (row, conj_ixd(row))
                    kw = dict(ferm=True, phases="probe0", label=5) if ferm else {}
                    for d in U.arrays_over(sym, indices, "one", "le1", **kw):
                        if d["charge"] != e or not d["sectors"]:
                            continue
                        for dtype in ("float64", "complex128"):
                            for fill in ("herm", "herm-anti", "herm-diag"):
                                idx += 1
                                yield dict(d, fill=(fill, idx), dtype=dtype)


def fused_matrix_descs(ctx, sym, ferm):
    """3-index arrays fused into matrices in every way"""
    groupings = [((0, 1), (2,)), ((0,), (1, 2)), ((2, 0), (1,)), ((1,), (2, 0)), ((1, 0), (2,)), ((2,), (0, 1))]
    kw = dict(ferm=True, phases="probe0", label=5) if ferm else {}
    idx = 0
    for d in U.arrays(sym, 3, "m2", "a", "two", "probe", **kw):
        if not d["sectors"]:
            continue
        for g in groupings:
            idx += 1
            yield dict(d, fill=("rand", 1000 + idx), dtype=("float64", "complex128")[idx % 2], derive=(("fuse", g),))


def value(x):
    return embed(x)


def block_value(x, s):
    """block with the pending sign applied"""
    b = np.asarray(x.blocks[s])
    if getattr(x, "fermionic", False) and x.phases.get(s, 1) == -1:
        return -b
    return b


def check_bond(x, left, right, what, out):
    """bond between left.indices[1] and right.indices[0]"""
    bl, br = left.indices[1], right.indices[0]
    if bool(bl.dual) == bool(br.dual):
        out.append((f"{what}/bond-directions", "the bond has the same direction on both factors"))
    if bool(bl.dual) != bool(x.indices[1].dual):
        out.append((f"{what}/bond-direction-left", "the bond on the left factor does not follow the column index"))
    if dict(bl.chargemap) != dict(br.chargemap):
        out.append((f"{what}/bond-tables-differ", f"{dict(bl.chargemap)} vs {dict(br.chargemap)}"))
    want = {}
    for s, b in x.blocks.items():
        want[s[1]] = min(np.shape(b))
    if dict(bl.chargemap) != dict(sorted(want.items())):
        out.append((f"{what}/bond-table", f"bond table {dict(bl.chargemap)} expected one charge per input block with size min(shape): {want}"))


def structure_failures(x, st=None):
    """C11: reconstruction and factor structure for qr / qr_stabilized / svd.  returns [(kind, detail)]"""
    import autoray as ar
    import symmray as sr

    out = []
    X = value(x)
    fr = frame_of(x)
    sym = type(x.symmetry).__name__
    e = G.identity(sym)
    scale = max(1.0, float(np.max(np.abs(X))) if X.size else 1.0)

    def run(name, fn):
        try:
            r = fn()
            if st is not None:
                st.transitions += 1
            return r
        except Exception as ex:
            out.append((f"{name}/raised-{type(ex).__name__}", str(ex)))
            return None

    def common(name, left, right):
        for kind, det in audit(left) + audit(right):
            out.append((f"{name}/invalid-factor-{kind}", det))
        if left.charge != x.charge:
            out.append((f"{name}/left-charge", f"{left.charge!r} expected {x.charge!r}"))
        if right.charge != e:
            out.append((f"{name}/right-charge", f"{right.charge!r} expected identity"))
        if index_key(left.indices[0]) != index_key(x.indices[0]) or index_key(right.indices[1]) != index_key(x.indices[1]):
            out.append((f"{name}/outer-indices", "outer indices of the factors are not those of the input"))
        check_bond(x, left, right, name, out)
        if set(left.blocks) != set(x.blocks):
            out.append((f"{name}/left-sectors", f"{sorted(left.blocks)} vs {sorted(x.blocks)}"))

    # ---- QR
    for name, fn in (
        ("qr", lambda: sr.linalg.qr(x)),
        ("autoray.qr", lambda: ar.do("linalg.qr", x)),
        ("qr[stabilized]", lambda: sr.linalg.qr(x, stabilized=True)),
        ("qr_stabilized", lambda: (lambda t: (t[0], t[2]))(sr.linalg.qr_stabilized(x))),
    ):
        r = run(name, fn)
        if r is None:
            continue
        q, rr = r
        common(name, q, rr)
        try:
            P = embed(sr.tensordot(q, rr, 1), fr, dtype=X.dtype)
            if not close(P, X, scale):
                out.append((f"{name}/reconstruction", f"Q.R differs from the input by {np.max(np.abs(P - X)):.3e}"))
        except Exception as ex:
            out.append((f"{name}/reconstruction-raised-{type(ex).__name__}", str(ex)))
        for s, b in q.blocks.items():
            b = np.asarray(b)
            if not close(b.conj().T @ b, np.eye(b.shape[1])):
                out.append((f"{name}/q-not-orthonormal", f"block {s}"))
                break
        for s, b in rr.blocks.items():
            b = np.asarray(b)
            if not close(np.tril(b, -1), np.zeros_like(b)):
                out.append((f"{name}/r-not-upper-triangular", f"block {s}"))
                break
            if "stab" in name:
                dg = np.diag(b)
                if np.any(np.abs(dg.imag) > TOL * scale) or np.any(dg.real < -TOL * scale):
                    out.append((f"{name}/r-diagonal-not-nonnegative", f"block {s}: {dg}"))
                    break
    # ---- SVD
    for name, fn in (("svd", lambda: sr.linalg.svd(x)), ("autoray.svd", lambda: ar.do("linalg.svd", x))):
        r = run(name, fn)
        if r is None:
            continue
        u, s_, vh = r
        common(name, u, vh)
        for kind, det in audit(s_):
            out.append((f"{name}/invalid-s-{kind}", det))
        try:
            P = embed(sr.tensordot(u.multiply_diagonal(s_, 1), vh, 1), fr, dtype=X.dtype)
            if not close(P, X, scale):
                out.append((f"{name}/reconstruction", f"U.s.Vh differs from the input by {np.max(np.abs(P - X)):.3e}"))
            P2 = embed(sr.tensordot(u, sr.multiply_diagonal(vh, s_, 0), 1), fr, dtype=X.dtype)
            if not close(P2, X, scale):
                out.append((f"{name}/reconstruction-right", "U.(s.Vh) differs from the input"))
        except Exception as ex:
            out.append((f"{name}/reconstruction-raised-{type(ex).__name__}", str(ex)))
        for s, b in u.blocks.items():
            b = np.asarray(b)
            if not close(b.conj().T @ b, np.eye(b.shape[1])):
                out.append((f"{name}/u-not-orthonormal", f"block {s}"))
                break
        for s, b in vh.blocks.items():
            b = np.asarray(b)
            if not close(b @ b.conj().T, np.eye(b.shape[0])):
                out.append((f"{name}/vh-not-orthonormal", f"block {s}"))
                break
        if set(s_.blocks) != set(u.indices[1].chargemap):
            out.append((f"{name}/s-charges", f"{sorted(s_.blocks)} vs bond {sorted(u.indices[1].chargemap)}"))
        for c, v in s_.blocks.items():
            v = np.asarray(v)
            if v.dtype.kind == "c" or np.any(v < -TOL * scale) or np.any(np.diff(v) > TOL * scale):
                out.append((f"{name}/s-not-nonnegative-nonincreasing", f"charge {c}: {v}"))
                break
            if u.indices[1].chargemap.get(c) != v.shape[0]:
                out.append((f"{name}/s-size", f"charge {c}"))
                break
    return out


def spectrum_failures(x, st=None):
    """C12 (svd part + norm): singular values == non-zero dense singular values; norm == dense norm"""
    import symmray as sr

    out = []
    X = value(x)
    import autoray as ar

    # every entry point that returns all singular values: svd, and svd_truncated asked not to truncate
    # (no cutoff and no bond limit - the signature defaults -, cutoff 0, a bond limit beyond the rank)
    big = int(max(X.shape)) + 3 if X.ndim == 2 else 8
    entries = (
        ("svd", lambda: sr.linalg.svd(x)[1]),
        ("autoray.svd", lambda: ar.do("linalg.svd", x)[1]),
        ("svd_truncated(defaults,absorb=None)", lambda: sr.linalg.svd_truncated(x, absorb=None)[1]),
        ("svd_truncated(cutoff=0,absorb=None)", lambda: sr.linalg.svd_truncated(x, cutoff=0.0, absorb=None)[1]),
        ("autoray.svd_truncated(cutoff=0,max_bond=big,absorb=None)", lambda: ar.do("svd_truncated", x, cutoff=0.0, max_bond=big, absorb=None)[1]),
    )
    ref = np.sort(np.linalg.svd(X, compute_uv=False)) if X.size else np.zeros(0)
    smax = max(1.0, float(ref.max()) if ref.size else 1.0)
    thr = 1e-8 * smax
    r = ref[ref > thr]
    for name, fn in entries:
        try:
            s_ = fn()
            if st is not None:
                st.transitions += 1
            got = np.sort(np.concatenate([np.asarray(v) for v in s_.blocks.values()])) if s_.blocks else np.zeros(0)
            g = got[got > thr]
            if g.shape != r.shape or not np.allclose(g, r, rtol=1e-8, atol=1e-8 * smax):
                out.append((f"{name}/singular-values", f"returned {g} dense {r}"))
        except Exception as ex:
            out.append((f"{name}/raised-{type(ex).__name__}", str(ex)))
    # an array whose first stored block is real and whose other blocks are complex (what a + b gives for real a, sparse complex b)
    if len(x.blocks) >= 2 and not any(np.asarray(b).dtype.kind == "c" for b in x.blocks.values()):
        try:
            a = x.copy() if not x.fermionic else x.phase_sync()
            b = a * (0.5 + 1.5j)
            del b.blocks[next(iter(a.blocks))]
            m = a + b
            nv = m.norm()
            ref = float(np.sqrt(sum((np.abs(np.asarray(blk)) ** 2).sum() for blk in m.blocks.values())))
            if abs(nv - ref) > 1e-10 * max(1.0, ref) or abs(getattr(nv, "imag", 0.0)) > 1e-12:
                out.append(("norm/mixed-dtype", f"{nv} vs {ref} for blocks of dtypes {[str(np.asarray(blk).dtype) for blk in m.blocks.values()]}"))
        except Exception as ex:
            out.append((f"norm/mixed-dtype-raised-{type(ex).__name__}", str(ex)))
    for name, fn in (("norm", lambda: x.norm()), ("linalg.norm", lambda: sr.linalg.norm(x))):
        try:
            nv = fn()
            if st is not None:
                st.transitions += 1
            ref = float(np.linalg.norm(X.ravel()))
            if abs(nv - ref) > 1e-10 * max(1.0, ref):
                out.append((f"{name}/value", f"{nv} vs dense {ref}"))
        except Exception as ex:
            out.append((f"{name}/raised-{type(ex).__name__}", str(ex)))
    return out


def is_library_hermitian(x):
    try:
        h = x.dagger() if not x.fermionic else x.H
        return tuple(index_key(i) for i in h.indices) == tuple(index_key(i) for i in x.indices) and close(embed(h), embed(x))
    except Exception:
        return False


def eigh_failures(x, st=None, c12=False):
    """x: charge zero, (i, i*) indices, blocks made Hermitian by the harness.  C11: reconstruction + structure.  C12 (abelian): eigenvalues == dense"""
    import autoray as ar
    import symmray as sr

    out = []
    X = value(x)
    fr = frame_of(x)
    scale = max(1.0, float(np.max(np.abs(X))) if X.size else 1.0)
    for name, fn in (("eigh", lambda: sr.linalg.eigh(x)), ("autoray.eigh", lambda: ar.do("linalg.eigh", x))):
        try:
            w, v = fn()
            if st is not None:
                st.transitions += 1
        except Exception as ex:
            out.append((f"{name}/raised-{type(ex).__name__}", str(ex)))
            continue
        if c12:
            got = np.sort(np.concatenate([np.asarray(b) for b in w.blocks.values()])) if w.blocks else np.zeros(0)
            ref_all = np.linalg.eigvalsh(X)
            # eigenvalues on the stored sectors: dense eigenvalues minus the zeros contributed by unstored diagonal sectors
            nzero = sum(d for (c, d) in fr[0] if (c, c) not in x.blocks)
            ref = list(np.sort(ref_all))
            for _ in range(nzero):
                k = int(np.argmin(np.abs(np.array(ref))))
                ref.pop(k)
            ref = np.sort(np.array(ref))
            if got.shape != ref.shape or not np.allclose(got, ref, rtol=1e-8, atol=1e-8 * scale):
                out.append((f"{name}/eigenvalues", f"returned {got} dense {ref}"))
            continue
        for kind, det in audit(v) + audit(w):
            out.append((f"{name}/invalid-factor-{kind}", det))
        if tuple(index_key(i) for i in v.indices) != tuple(index_key(i) for i in x.indices):
            out.append((f"{name}/eigenvector-indices", "indices changed"))
        try:
            P = embed(sr.tensordot(v.multiply_diagonal(w, 1), v.H, 1), fr, dtype=X.dtype)
            if not close(P, X, scale):
                out.append((f"{name}/reconstruction", f"V.w.V^H differs from the input by {np.max(np.abs(P - X)):.3e}"))
        except Exception as ex:
            out.append((f"{name}/reconstruction-raised-{type(ex).__name__}", str(ex)))
        for s, b in v.blocks.items():
            b = np.asarray(b)
            if not close(b.conj().T @ b, np.eye(b.shape[1])):
                out.append((f"{name}/eigenvectors-not-orthonormal", f"block {s}"))
                break
        for c, ev in w.blocks.items():
            if np.asarray(ev).dtype.kind == "c":
                out.append((f"{name}/eigenvalues-complex", f"{c}"))
                break
    return out


def solve_failures(a, b, st=None, c12=False):
    out = _solve_failures(a, b, st, c12)
    sym = type(a.symmetry).__name__
    if getattr(a, "fermionic", False) and G.parity(sym, a.charge) == 1:
        # an odd-parity fermionic matrix is its own class of input (the solution would need a label of its own)
        out = [(kd.replace("solve/", "solve[fermionic,odd-a]/", 1), det) for kd, det in out]
    return out


def _solve_failures(a, b, st=None, c12=False):
    import symmray as sr

    out = []
    sym = type(a.symmetry).__name__
    try:
        x = sr.linalg.solve(a, b)
        if st is not None:
            st.transitions += 1
    except Exception as ex:
        return [(f"solve/raised-{type(ex).__name__}", str(ex))]
    A, B = value(a), value(b)
    if c12:
        try:
            Xd = embed(x, (frame_of(a)[1],), dtype=np.result_type(A, B))
            ref = np.linalg.solve(A, B)
            if not close(Xd, ref, max(1.0, float(np.max(np.abs(ref))))):
                out.append(("solve/value", f"differs from numpy.linalg.solve by {np.max(np.abs(Xd - ref)):.3e}"))
        except Exception as ex:
            out.append((f"solve/compare-raised-{type(ex).__name__}", str(ex)))
        return out
    for kind, det in audit(x):
        out.append((f"solve/invalid-result-{kind}", det))
    want_charge = G.combine(sym, b.charge, G.neg(sym, a.charge))
    if x.charge != want_charge:
        out.append(("solve/charge", f"{x.charge!r} expected {want_charge!r}"))
    if x.ndim != 1 or index_plain_key(x.indices[0]) != (tuple(a.indices[1].chargemap.items()), not a.indices[1].dual):
        out.append(("solve/index", "the solution's index is not the conjugate of a's column index"))
    try:
        P = embed(sr.tensordot(a, x, 1), (frame_of(a)[0],), dtype=np.result_type(A, B))
        if not close(P, B, max(1.0, float(np.max(np.abs(B))) if B.size else 1.0)):
            out.append(("solve/residual", f"a.x differs from b by {np.max(np.abs(P - B)):.3e}"))
    except Exception as ex:
        out.append((f"solve/residual-raised-{type(ex).__name__}", str(ex)))
    return out


def solve_systems(ctx, sym, ferm):
    """(a descriptor, b descriptor, dense_ok).
    (1) a square (i, i*)-indexed, charge zero, every diagonal sector stored, dominant blocks; b on a's row index, every charge;
    (2) a with every direction pattern and every total charge over uniform block sizes (square off-diagonal blocks);
        b = the single valid sector of each row charge that has an a-block.  dense_ok: the stored sectors pair every row
        charge with a column charge one-to-one, so the dense embedding is an invertible square matrix (C12 comparison)."""
    menu = U.get_menu(sym, "m3")
    idx = 0
    e = G.identity(sym)
    for rows in menu:
        for sizes in ((2, 2, 2), (1, 2, 3)):
            rt = {c: sizes[k % 3] for k, c in enumerate(sorted(rows))}
            for dual in (False, True):
                row = ixd(rt, dual)
                valid = G.valid_sectors(sym, [tuple(rt), tuple(rt)], (dual, not dual), e)
                for dtype in ("float64", "complex128"):
                    idx += 1
                    a = arrd(sym, (row, conj_ixd(row)), e, tuple(valid), dtype=dtype, fill=("dominant", idx), **({"ferm": True, "phases": tuple(valid[::2]), "oddpos": None} if ferm else {}))
                    for bcharge in G.charge_closure(sym, [tuple(rt)], (dual,)):
                        bvalid = G.valid_sectors(sym, [tuple(rt)], (dual,), bcharge)
                        odd = G.parity(sym, bcharge) == 1
                        bkw = {"ferm": True, "phases": tuple(bvalid) if idx % 2 else (), "oddpos": (7 if odd else None)} if ferm else {}
                        b = arrd(sym, (row,), bcharge, tuple(bvalid), dtype=dtype, fill=("rand", 50 + idx), **bkw)
                        yield a, b, True
    # (2) general directions and charges, uniform sizes
    for rows in U.get_menu(sym, "core"):
        if len(rows) < 2:
            continue
        table = {c: 2 for c in rows}
        for d0, d1 in itertools.product((False, True), repeat=2):
            indices = (ixd(table, d0), ixd(table, d1))
            for charge in G.charge_closure(sym, [tuple(table), tuple(table)], (d0, d1)):
                valid = G.valid_sectors(sym, [tuple(table), tuple(table)], (d0, d1), charge)
                if not valid:
                    continue
                idx += 1
                dtype = ("float64", "complex128")[idx % 2]
                odd_a = G.parity(sym, charge) == 1
                akw = {"ferm": True, "phases": tuple(valid[::2]) if idx % 3 else (), "oddpos": (4 if odd_a else None)} if ferm else {}
                a = arrd(sym, indices, charge, tuple(valid), dtype=dtype, fill=("dominant", 300 + idx), **akw)
                dense_ok = len({s_[0] for s_ in valid}) == len(valid) == len(table) and len({s_[1] for s_ in valid}) == len(valid)
                for (c0, c1) in valid:
                    bcharge = G.signed(sym, c0, d0)
                    odd = G.parity(sym, bcharge) == 1
                    bkw = {"ferm": True, "phases": ((c0,),) if idx % 2 else (), "oddpos": (7 if odd else None)} if ferm else {}
                    b = arrd(sym, (indices[0],), bcharge, ((c0,),), dtype=dtype, fill=("rand", 70 + idx), **bkw)
                    yield a, b, dense_ok
