"""Shared runner: imports symmray from the tree under test, distributes the
groups of a check over worker processes, aggregates counters, triages
violations against known_findings.json, writes evidence and replay files."""

import collections
import hashlib
import importlib
import json
import multiprocessing as mp
import os
import sys
import time
import traceback

VERIF = os.path.dirname(os.path.dirname(os.path.abspath(__file__)))
REPO = os.environ.get("VERIF_REPO", "/repo")

REFUSAL_TYPES = (ValueError, TypeError, NotImplementedError, KeyError, AssertionError, AttributeError, IndexError)


def import_symmray():
    """Import symmray from $VERIF_REPO (default /repo) - the current working tree."""
    os.environ.setdefault("SYMMRAY_VERIF", "1")
    if REPO not in sys.path or sys.path[0] != REPO:
        sys.path.insert(0, REPO)
    import symmray

    real = os.path.realpath(symmray.__file__)
    if not real.startswith(os.path.realpath(REPO) + os.sep):
        raise RuntimeError(f"symmray imported from {real}, expected under {REPO}")
    return symmray


class Ctx:
    def __init__(self, prop, tier, seed, workers, budget=None, args=None):
        self.prop = prop
        self.tier = tier
        self.seed = seed
        self.workers = workers
        self.budget = budget
        self.args = args or {}
        self.t0 = time.time()

    @property
    def thorough(self):
        return self.tier == "thorough"


class Stats:
    """Counters returned by one group; mergeable."""

    MAX_VIOL_PER_SIG = 3

    def __init__(self):
        self.evaluations = 0
        self.nontrivial = 0
        self.transitions = 0
        self.traces = 0
        self.states = 0
        self.state_hashes = None  # optional set of ints, merged by union
        self.refusals = collections.Counter()
        self.counters = collections.Counter()
        self.samples = []
        self.violations = {}  # sig -> [count, [ (case, detail), ...]]
        self.notes = []
        self.tiers_done = collections.Counter()
        self.outcomes = collections.Counter()
        self.slow = []

    def sample(self, s, cap=3):
        if len(self.samples) < cap:
            self.samples.append(s)

    def refuse(self, op, exc):
        self.refusals[f"{op}:{type(exc).__name__}"] += 1

    def violation(self, sig, case, detail):
        ent = self.violations.setdefault(sig, [0, []])
        ent[0] += 1
        if len(ent[1]) < self.MAX_VIOL_PER_SIG:
            ent[1].append((case, detail))

    def add_state(self, key):
        if self.state_hashes is None:
            self.state_hashes = set()
        h = int.from_bytes(hashlib.blake2b(repr(key).encode(), digest_size=8).digest(), "big")
        if h in self.state_hashes:
            return False
        self.state_hashes.add(h)
        return True

    def merge(self, o):
        self.evaluations += o.evaluations
        self.nontrivial += o.nontrivial
        self.transitions += o.transitions
        self.traces += o.traces
        self.states += o.states
        if o.state_hashes is not None:
            if self.state_hashes is None:
                self.state_hashes = set()
            self.state_hashes |= o.state_hashes
        self.refusals.update(o.refusals)
        self.counters.update(o.counters)
        self.outcomes.update(o.outcomes)
        self.tiers_done.update(o.tiers_done)
        self.slow = sorted(self.slow + getattr(o, "slow", []), reverse=True)[:5]
        for s in o.samples:
            self.sample(s, cap=6)
        for sig, (n, lst) in o.violations.items():
            ent = self.violations.setdefault(sig, [0, []])
            ent[0] += n
            for it in lst:
                if len(ent[1]) < self.MAX_VIOL_PER_SIG:
                    ent[1].append(it)
        for n in o.notes:
            if n not in self.notes and len(self.notes) < 20:
                self.notes.append(n)


# --------------------------------------------------------------------------- #
# library global state


def find_lru_caches():
    import symmray as sr
    import pkgutil

    mods = [sr]
    for m in pkgutil.walk_packages(sr.__path__, "symmray."):
        try:
            mods.append(importlib.import_module(m.name))
        except Exception:
            pass
    caches = {}
    for m in mods:
        for name, v in list(vars(m).items()):
            if hasattr(v, "cache_clear") and hasattr(v, "cache_info"):
                caches.setdefault(id(v), (v, []))[1].append(f"{m.__name__}.{name}")
    return caches, mods


_CACHES = None


def reset_library_state(maxsize=None, maxsectors=None):
    """Cold caches, default mode: required for replayable executions."""
    global _CACHES
    from symmray import abelian_core as ac

    if _CACHES is None:
        _CACHES = find_lru_caches()[0]
    ac._fuseinfos.clear()
    for v, _ in _CACHES.values():
        v.cache_clear()
    ac._DEFAULT_TENSORDOT_MODE = "auto"
    if maxsize is not None:
        ac._fuseinfo_cache_maxsize = maxsize
    if maxsectors is not None:
        ac._fuseinfo_cache_maxsectors = maxsectors


# --------------------------------------------------------------------------- #
# known findings


def load_known():
    path = os.path.join(VERIF, "known_findings.json")
    if not os.path.exists(path):
        return {}
    with open(path) as f:
        data = json.load(f)
    out = {}
    for ent in data.get("findings", []):
        if ent.get("status") == "known":
            out[ent["signature"]] = ent
    return out


# --------------------------------------------------------------------------- #
# running


def _worker(args):
    modname, ctxd, idx, group = args
    try:
        import warnings

        warnings.simplefilter("ignore")
        mod = importlib.import_module(modname)
        ctx = Ctx(**ctxd)
        t0 = time.time()
        st = mod.run_group(ctx, group)
        dt = time.time() - t0
        st.counters["group_seconds_x1000"] += int(dt * 1000)
        st.slow = [(round(dt, 2), repr(group)[:120])]
        return idx, st, None
    except BaseException:
        return idx, None, traceback.format_exc()


def run_check(modname, prop, tier, seed, workers, args=None):
    import_symmray()
    mod = importlib.import_module(modname)
    ctxd = dict(prop=prop, tier=tier, seed=seed, workers=workers, args=args or {})
    ctx = Ctx(**ctxd)
    t0 = time.time()
    groups = list(mod.groups(ctx))
    total = Stats()
    budget = getattr(mod, "BUDGET", {}).get(tier)
    if os.environ.get("VERIF_BUDGET"):
        budget = float(os.environ["VERIF_BUDGET"])
    ngroups = len(groups)
    done = 0
    skipped = 0
    harness_errors = []
    jobs = [(modname, ctxd, i, g) for i, g in enumerate(groups)]
    if workers <= 1 or ngroups <= 1:
        results = map(_worker, jobs)
        pool = None
    else:
        mpctx = mp.get_context("fork")
        pool = mpctx.Pool(min(workers, ngroups))
        results = pool.imap(_worker, jobs, chunksize=1)
    collected = {}
    # VERIF_FAILFAST=1 (used by tools/seed_verify.py when re-running many breaking changes): stop dispatching once a
    # violation that is not a known finding has been seen; the run is then reported as cut short (not exhaustive)
    failfast = os.environ.get("VERIF_FAILFAST") == "1"
    known_sigs = set(load_known()) if failfast else set()
    try:
        for idx, st, err in results:
            if err is not None:
                harness_errors.append((idx, err))
            else:
                collected[idx] = st
            done += 1
            if failfast and err is None and any(sig not in known_sigs for sig in st.violations):
                skipped = ngroups - done
                st.notes.append("VERIF_FAILFAST: stopped dispatching after the first group that reported a violation")
                break
            if budget and time.time() - t0 > budget:
                skipped = ngroups - done
                break
    finally:
        if pool is not None:
            pool.terminate()
            pool.join()
    for idx in sorted(collected):
        total.merge(collected[idx])
    wall = time.time() - t0
    return finalize(mod, ctx, total, ngroups, done, skipped, harness_errors, wall)


def finalize(mod, ctx, total, ngroups, done, skipped, harness_errors, wall):
    prop = ctx.prop
    known = load_known()
    nviol = 0
    nknown = 0
    lines = []
    os.makedirs(os.path.join(VERIF, "replays"), exist_ok=True)
    known_hit = {}
    for sig in sorted(total.violations):
        n, lst = total.violations[sig]
        if sig in known:
            nknown += n
            known_hit[sig] = n
            lines.append(f"KNOWN-FINDING: property={prop} {known[sig].get('what', sig)} [signature={sig}] ({n} cases)")
            continue
        nviol += n
        for case, detail in lst[:1]:
            digest = hashlib.sha1((sig + repr(case)).encode()).hexdigest()[:12]
            path = os.path.join(VERIF, "replays", f"{prop}-{digest}.json")
            from .arrays import enc

            with open(path, "w") as f:
                json.dump({"property": prop, "signature": sig, "case": enc(case), "detail": str(detail)[:4000]}, f, indent=1)
            lines.append(f"VIOLATION property={prop} replay={path}")
            lines.append(f"  signature={sig} cases={n} detail={str(detail)[:300]}")
    for idx, err in harness_errors[:3]:
        lines.append(f"HARNESS-ERROR group={idx}\n{err}")
    meta = getattr(mod, "META", {})
    states = len(total.state_hashes) if total.state_hashes is not None else total.states
    exhaustive = skipped == 0 and not harness_errors and not total.counters.get("capped", 0)
    coverage = {
        "states": max(int(states), 0),
        "transitions": int(total.transitions),
        "traces_validated_against_impl": int(total.traces),
        "samples": total.samples[:6] if total.samples else ["(no sample recorded)"],
        "evaluations": int(total.evaluations),
        "distinct_nontrivial": int(total.nontrivial),
        "rule": meta.get("rule", ""),
        "exhaustive": bool(exhaustive),
        "groups_total": ngroups,
        "groups_done": done,
        "groups_skipped_by_budget": skipped,
        "bounds": meta.get("bounds", {}).get(ctx.tier, meta.get("bounds", {})),
        "refusals_by_operation": dict(sorted(total.refusals.items())),
        "counters": dict(sorted(total.counters.items())),
        "distinct_outcomes": dict(sorted((str(k), v) for k, v in total.outcomes.items())),
        "known_findings_hit": known_hit,
        "slowest_groups": total.slow,
        "notes": total.notes,
        "repo": REPO,
    }
    ev = {
        "property_id": prop,
        "tier": ctx.tier,
        "seed": int(ctx.seed),
        "level": "model_checking",
        "coverage": coverage,
        "assumptions": meta.get("assumptions", []),
        "wall_s": round(wall, 2),
        "violations": int(nviol),
    }
    os.makedirs(os.path.join(VERIF, "evidence"), exist_ok=True)
    evpath = os.environ.get("VERIF_EVIDENCE_DIR", os.path.join(VERIF, "evidence"))
    os.makedirs(evpath, exist_ok=True)
    with open(os.path.join(evpath, f"{prop}.json"), "w") as f:
        json.dump(ev, f, indent=1, default=str)
    for ln in lines:
        print(ln)
    print(
        f"[{prop}] tier={ctx.tier} seed={ctx.seed} groups={done}/{ngroups} states={states} transitions={total.transitions} "
        f"evaluations={total.evaluations} nontrivial={total.nontrivial} traces={total.traces} "
        f"violations={nviol} known={nknown} wall={wall:.1f}s exhaustive={exhaustive}"
    )
    if harness_errors:
        return 2
    return 1 if nviol else 0


def run_replay(modname, prop, path):
    import_symmray()
    from .arrays import dec

    mod = importlib.import_module(modname)
    with open(path) as f:
        rec = json.load(f)
    case = dec(rec["case"])
    ctx = Ctx(prop=prop, tier="quick", seed=0, workers=1)
    outs = []
    for rep in range(2):
        reset_library_state()
        fails = mod.replay(ctx, case)
        outs.append(sorted((sig, str(det)[:2000]) for sig, det in fails))
    if outs[0] != outs[1]:
        print("HARNESS-ERROR: replay is not deterministic")
        print(outs[0][:2], outs[1][:2])
        return 2
    if not outs[0]:
        print(f"[{prop}] replay {path}: property holds on this case")
        return 0
    known = load_known()
    rc = 0
    for sig, det in outs[0]:
        if sig in known:
            print(f"KNOWN-FINDING: property={prop} {known[sig].get('what', sig)} [signature={sig}]")
        else:
            print(f"VIOLATION property={prop} replay={path}")
            print(f"  signature={sig} detail={det[:600]}")
            rc = 1
    return rc
