"""R-group: the harness's own, table based implementation of the built-in
abelian groups.  Shares nothing with symmray.symmetries (no import of symmray
in this module)."""

import itertools

SYMS = ("Z2", "Z4", "U1", "Z2Z2", "U1U1")
PRODUCT = {"Z2Z2", "U1U1"}
MODULUS = {"Z2": 2, "Z4": 4, "U1": None, "Z2Z2": 2, "U1U1": None}


def _comb1(sym, vals):
    m = MODULUS[sym]
    s = 0
    for v in vals:
        s += v
    return s % m if m else s


def identity(sym):
    return (0, 0) if sym in PRODUCT else 0


def combine(sym, *cs):
    if sym in PRODUCT:
        return (_comb1(sym, [c[0] for c in cs]), _comb1(sym, [c[1] for c in cs]))
    return _comb1(sym, cs)


def neg(sym, c):
    m = MODULUS[sym]
    if sym in PRODUCT:
        return tuple(((-v) % m) if m else -v for v in c)
    return ((-c) % m) if m else -c


def signed(sym, c, dual):
    return neg(sym, c) if dual else c


def parity(sym, c):
    if sym in PRODUCT:
        return (c[0] + c[1]) % 2
    return c % 2


def valid(sym, c):
    m = MODULUS[sym]
    if sym in PRODUCT:
        if not (isinstance(c, tuple) and len(c) == 2):
            return False
        return all(isinstance(v, int) and not isinstance(v, bool) and (m is None or 0 <= v < m) for v in c)
    return isinstance(c, int) and not isinstance(c, bool) and (m is None or 0 <= c < m)


def sector_charge(sym, sector, duals):
    return combine(sym, *[signed(sym, c, d) for c, d in zip(sector, duals)])


def valid_sectors(sym, tables, duals, charge):
    """Brute force: every tuple of available charges whose signed combination
    equals ``charge``.  ``tables`` is a list of iterables of charges."""
    out = []
    for sec in itertools.product(*[sorted(t) for t in tables]):
        if sector_charge(sym, sec, duals) == charge:
            out.append(sec)
    return out


# charge alphabets (DESIGN 3.2)
ALPHABET = {
    "Z2": [0, 1],
    "Z4": [0, 1, 2, 3],
    "U1": [-1, 0, 1, 2],
    "Z2Z2": [(0, 0), (0, 1), (1, 0), (1, 1)],
    "U1U1": [(0, 0), (0, 1), (1, 0), (1, 1), (-1, 0)],
}
ALPHABET_THOROUGH = {
    "Z2": [0, 1],
    "Z4": [0, 1, 2, 3],
    "U1": [-2, -1, 0, 1, 2, 3],
    "Z2Z2": [(0, 0), (0, 1), (1, 0), (1, 1)],
    "U1U1": [(0, 0), (0, 1), (1, 0), (1, 1), (-1, 0), (0, -1), (1, -1), (2, 0)],
}

# curated index charge-subsets used where pairs / networks are enumerated
M_CORE = {
    "Z2": [(0,), (1,), (0, 1)],
    "Z4": [(0,), (1,), (0, 1), (1, 3), (0, 1, 2)],
    "U1": [(0,), (1,), (0, 1), (-1, 1), (-1, 0, 1), (0, 1, 2)],
    "Z2Z2": [((0, 0),), ((0, 1),), ((0, 0), (0, 1)), ((0, 1), (1, 0)), ((0, 0), (0, 1), (1, 1))],
    "U1U1": [((0, 0),), ((1, 0),), ((0, 0), (0, 1)), ((1, 0), (-1, 0)), ((0, 0), (1, 0), (1, 1))],
}


def m_full(sym, k=3, thorough=False):
    alpha = (ALPHABET_THOROUGH if thorough else ALPHABET)[sym]
    out = []
    for r in range(1, k + 1):
        out.extend(itertools.combinations(alpha, r))
    return out


def charge_closure(sym, tables, duals):
    """Every total charge that admits at least one sector."""
    out = set()
    for sec in itertools.product(*tables):
        out.add(sector_charge(sym, sec, duals))
    return sorted(out)


def size_table(name, charges, axis):
    """Fixed size tables S_a, S_1, S_b (DESIGN 3.2).  ``charges`` sorted."""
    out = {}
    for r, c in enumerate(sorted(charges)):
        if name == "a":
            out[c] = 1 + ((r + axis) % 2)
        elif name == "1":
            out[c] = 1
        elif name == "b":
            out[c] = (2, 1, 3)[(r + axis) % 3]
        elif name == "2":
            out[c] = 2
        else:
            raise ValueError(name)
    return out
