#!/venv/bin/python
"""Verify and file a seeded property-breaking change.

usage: tools/seed_verify.py <name> <dir-with-patch.diff-and-demo.py> <property> [checks ...]

Makes a scratch copy of /repo (outside /repo and /verif), confirms that
  * the patch applies,
  * the repository's own test-suite still passes with it,
  * the demonstration fails with it and passes without it,
then runs the named checks (quick tier; default: the property's own) against
the patched copy and records everything in /verif/seeded/<name>/meta.json.
The scratch copy is removed afterwards."""

import json
import os
import re
import shutil
import subprocess
import sys
import tempfile
import time

VERIF = os.path.dirname(os.path.dirname(os.path.abspath(__file__)))


def sh(cmd, cwd=None, env=None, timeout=3600):
    p = subprocess.run(cmd, shell=True, cwd=cwd, env=env, capture_output=True, text=True, timeout=timeout)
    return p.returncode, p.stdout + p.stderr


def main():
    name, src, prop = sys.argv[1:4]
    checks = sys.argv[4:] or [prop]
    tier = os.environ.get("SEED_TIER", "quick")
    dst = os.path.join(VERIF, "seeded", name)
    os.makedirs(dst, exist_ok=True)
    for f in ("patch.diff", "demo.py", "notes.md"):
        if os.path.exists(os.path.join(src, f)) and os.path.abspath(src) != os.path.abspath(dst):
            shutil.copy(os.path.join(src, f), os.path.join(dst, f))
    patch = os.path.join(dst, "patch.diff")
    demo = os.path.join(dst, "demo.py")
    scratch = tempfile.mkdtemp(prefix="seed.", dir="/tmp")
    meta = {"name": name, "breaks_property": prop, "verified_at": time.strftime("%Y-%m-%d %H:%M:%S"),
            "repo_head": sh("git -C /repo rev-parse --short HEAD")[1].strip()}
    try:
        base = os.path.join(scratch, "base")
        mut = os.path.join(scratch, "mut")
        for d in (base, mut):
            sh(f"rsync -a --exclude .git --exclude MUTANT /repo/ {d}/")
        rc, out = sh(f"patch -p1 -s < {patch}", cwd=mut)
        meta["patch_applies"] = rc == 0
        if rc != 0:
            meta["error"] = out[-500:]
            return finish(dst, meta)
        env = dict(os.environ, PYTHONPATH=mut)
        old = {}
        if os.environ.get("SEED_CHECKS_ONLY") == "1" and os.path.exists(os.path.join(dst, "meta.json")):
            # regression over many changes: suite and demonstration were verified before (kept), only the checks are re-run
            old = json.load(open(os.path.join(dst, "meta.json")))
        if old.get("suite_passes_with_patch") and old.get("demo_exit_with_patch") == 1 and old.get("demo_exit_without_patch") == 0:
            for k in ("suite_with_patch", "suite_passes_with_patch", "demo_exit_with_patch", "demo_exit_without_patch", "demo_output_with_patch"):
                meta[k] = old.get(k)
            meta["suite_and_demo_verified_at"] = old.get("suite_and_demo_verified_at", old.get("verified_at"))
            skip = True
        else:
            skip = False
            rc, out = sh("/venv/bin/python -m pytest -q -p no:cacheprovider -n 8 2>&1 | tail -3", cwd=mut, env=env)
            m = re.search(r"(\d+) passed", out)
            meta["suite_with_patch"] = out.strip().splitlines()[-1] if out.strip() else ""
            meta["suite_passes_with_patch"] = bool(m) and "failed" not in out and "error" not in out.lower().replace("errors", "error").replace("0 error", "")
        if os.path.exists(demo) and not skip:
            rc_m, out_m = sh(f"/venv/bin/python {demo}", cwd="/tmp", env=dict(os.environ, PYTHONPATH=mut), timeout=900)
            rc_b, out_b = sh(f"/venv/bin/python {demo}", cwd="/tmp", env=dict(os.environ, PYTHONPATH=base), timeout=900)
            meta["demo_exit_with_patch"] = rc_m
            meta["demo_exit_without_patch"] = rc_b
            meta["demo_output_with_patch"] = out_m[-600:]
        detected = {}
        for c in checks:
            env2 = dict(os.environ, VERIF_REPO=mut, VERIF_EVIDENCE_DIR=os.path.join(scratch, "ev"))
            if os.environ.get("SEED_FAILFAST") == "1":
                env2["VERIF_FAILFAST"] = "1"  # regression over many changes: the first violation settles "caught"
            t0 = time.time()
            rc, out = sh(f"{VERIF}/check {c} --tier {tier}", cwd=VERIF, env=env2, timeout=7200)
            sigs = re.findall(r"signature=(\S+) cases=(\d+)", out)
            detected[c] = {"exit": rc, "violation_signatures": [f"{s} ({n})" for s, n in sigs][:8], "wall_s": round(time.time() - t0, 1)}
        meta["checks_run"] = detected
        meta["caught_by"] = [c for c, d in detected.items() if d["exit"] == 1]
        meta["ran"] = f"suite with patch; demo with/without patch; ./check <id> --tier {tier} with VERIF_REPO=<patched scratch copy> for {checks}" + (
            " (stopped at the first group that reported a violation)" if os.environ.get("SEED_FAILFAST") == "1" else "")
        return finish(dst, meta)
    finally:
        shutil.rmtree(scratch, ignore_errors=True)
        for f in os.listdir(os.path.join(VERIF, "replays")) if os.path.isdir(os.path.join(VERIF, "replays")) else []:
            pass


def finish(dst, meta):
    old = {}
    p = os.path.join(dst, "meta.json")
    if os.path.exists(p):
        try:
            old = json.load(open(p))
        except Exception:
            old = {}
    for k in ("needs_to_manifest", "source", "summary", "initially_caught_by"):
        if k in old and k not in meta:
            meta[k] = old[k]
    with open(p, "w") as f:
        json.dump(meta, f, indent=1)
    print(json.dumps(meta, indent=1))


main()
