#!/venv/bin/python
"""Generate /verif/seeded/README.md (and print the markdown table) from the meta.json files."""
import glob, json, os
HERE = os.path.dirname(os.path.dirname(os.path.abspath(__file__)))
rows = []
for f in sorted(glob.glob(os.path.join(HERE, "seeded", "*", "meta.json"))):
    m = json.load(open(f))
    checks = m.get("checks_run", {})
    caught = m.get("caught_by", [])
    missed = [c for c in checks if c not in caught]
    sig = ""
    for c in caught:
        v = checks[c]["violation_signatures"]
        if v:
            sig = v[0]
            break
    ok = m.get("suite_passes_with_patch") and m.get("demo_exit_with_patch") == 1 and m.get("demo_exit_without_patch") == 0
    rows.append((m["name"], m["breaks_property"], m.get("summary", ""), m.get("needs_to_manifest", ""), "yes" if ok else "NO", ", ".join(caught) or "-", ", ".join(missed) or "-", (", ".join(m["initially_caught_by"]) or "none") if "initially_caught_by" in m else "(as now)", sig))
lines = ["| name | property | change | needs to manifest | verified (suite passes, demo fails/passes) | caught by (quick) | also run, silent | caught before strengthening | first signature |", "|---|---|---|---|---|---|---|---|---|"]
for r in rows:
    lines.append("| " + " | ".join(str(x).replace("|", "/") for x in r) + " |")
out = "# Independently seeded property-breaking changes\n\nEach directory holds `patch.diff`, `demo.py`, `notes.md` (from the sub-agent) and `meta.json` (verification done here by `tools/seed_verify.py`).\nApply with `git -C /repo apply seeded/<name>/patch.diff`, undo with `git -C /repo checkout -- .`.\n\n" + "\n".join(lines) + "\n"
open(os.path.join(HERE, "seeded", "README.md"), "w").write(out)
print("\n".join(lines))
