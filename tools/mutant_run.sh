#!/bin/sh
# usage: tools/mutant_run.sh <patch.diff> <tier> C02 C05 ...   - runs checks against a scratch copy of /repo with the patch applied
set -e
PATCH="$(realpath "$1")"; TIER="$2"; shift 2
D="$(mktemp -d /tmp/mut.XXXXXX)"
mkdir -p "$D/repo" "$D/ev"
rsync -a --exclude .git /repo/ "$D/repo/"
( cd "$D/repo" && patch -p1 -s < "$PATCH" )
rc=0
for c in "$@"; do
  VERIF_REPO="$D/repo" VERIF_EVIDENCE_DIR="$D/ev" /verif/check "$c" --tier "$TIER" 2>&1 | grep -E "^(VIOLATION|KNOWN|HARNESS|\[C|  sig)" | head -12 || true
done
rm -rf "$D"
