#!/venv/bin/python
"""Regenerate /verif/MANIFEST.json from the table below (kept by hand)."""
import json, os, sys

HERE = os.path.dirname(os.path.dirname(os.path.abspath(__file__)))
sys.path.insert(0, HERE)
from tools.manifest_table import CHECKS, NOT_APPLICABLE, NOTES

def main():
    checks = []
    for pid, c in CHECKS.items():
        checks.append({
            "property_id": pid,
            "quick_cmd": f"./check {pid} --tier quick",
            "thorough_cmd": f"./check {pid} --tier thorough",
            "evidence_file": f"/verif/evidence/{pid}.json",
            "replay_cmd_template": f"./check {pid} --replay {{path}}",
            "engine": c["engine"],
            "level_claimed": {"category": "model_checking", "text": c["text"], "design_ref": c["design_ref"]},
            "level_note": c["note"],
            "technique": c["technique"],
        })
    man = {
        "version": 1,
        "setup_cmd": "/venv/bin/python -B -m mc.selftest",
        "hooks": {
            "guard": "SYMMRAY_VERIF",
            "enable": "no source hooks are needed: the checks import /repo's working tree directly (VERIF_REPO overrides the path) and observe module state from outside; SYMMRAY_VERIF=1 is exported by ./check but guards nothing in the source",
            "baseline_off_cmd": "cd /repo && /venv/bin/python -m pytest -ra -q -p no:cacheprovider --timeout=900 --continue-on-collection-errors",
            "source_commits": [],
            "add_only": True,
        },
        "engines": [
            {"name": "E-enum", "path": "mc/checks", "serves_properties": [p for p, c in CHECKS.items() if "E-enum" in c["engine"]],
             "kind_free_text": "stateless exhaustive enumeration of bounded input configurations x argument menus, each executed on the real code and compared with an executable reference model"},
            {"name": "E-bfs", "path": "mc/checks", "serves_properties": [p for p, c in CHECKS.items() if "E-bfs" in c["engine"]],
             "kind_free_text": "explicit-state breadth-first search over operation sequences on the real objects with canonical state hashing; invariant / twin comparison in every state"},
            {"name": "E-hist", "path": "mc/checks/c15.py", "serves_properties": [p for p, c in CHECKS.items() if "E-hist" in c["engine"]],
             "kind_free_text": "explicit-state search over call histories of the process-wide caches"},
            {"name": "E-sched", "path": "mc/sched.py", "serves_properties": [p for p, c in CHECKS.items() if "E-sched" in c["engine"]],
             "kind_free_text": "stateless preemption-bounded schedule exploration of real threads under a sys.settrace baton scheduler"},
        ],
        "checks": checks,
        "notes": NOTES,
        "not_applicable": [{"property_id": p, "reason": r} for p, r in NOT_APPLICABLE.items()],
    }
    with open(os.path.join(HERE, "MANIFEST.json"), "w") as f:
        json.dump(man, f, indent=1)
    print("wrote MANIFEST.json with", len(checks), "checks;", len(NOT_APPLICABLE), "not applicable")

main()
