NOTES = ("All checks are bounded exhaustive explorations of the real implementation (no sampling decides a verdict); "
         "see DESIGN.md. VERIF_SEED only permutes tag assignments / picks the residue slice of the larger tier in quick mode.")

CHECKS = {
 "C17": dict(engine="E-enum", design_ref="DESIGN.md 5 C17",
   technique="exhaustive enumeration of charge triples and of small arrays; reference = table based group model + brute-force sector filter",
   text="Every triple of charges of the finite groups and of the box [-6,6] (pairs / triples of [-6,6]^2 for U1U1) is run through the real "
        "Symmetry objects and compared with a table based group model; every array with <=3 (quick) / <=4 (thorough) indices over every non-empty "
        "subset of a 3-charge set, every direction pattern and total charge has gen_valid_sectors / is_valid_sector / from_fill_fn compared with a brute-force filter. "
        "sign() is also run with its dualness flag in every accepted representation (bool, int 0/1, numpy.bool_) in every order of first use from cold memo caches. "
        "The quantifier of the property is finite and is covered completely, which is why exhaustive enumeration is the right level. from_fill_fn / random are also called with the indices as list and as generator, and random after the same call with another symmetry on the same structure (generic class).",
   note="Trusted: mc/groups.py as specification of the groups; python int semantics. Bounded to the stated boxes and index counts."),
 "C02": dict(engine="E-enum", design_ref="DESIGN.md 5 C02",
   technique="exhaustive enumeration of contractible pairs x axes x modes on the real code; reference = numpy contraction of the harness's own dense embedding, exact integer tags",
   text="Every pair (a, b, axes) of the bounded universe (<=3 indices per operand, <=3 charges per index, all directions, total charges, independent sparsity "
        "patterns and block orders, every axis placement and listing order) is contracted by the real tensordot in modes fused / blockwise / auto, through autoray, @, "
        "negative and integer axes, the default-mode context manager and preserve_array, plus trace and every one-/two-pair single-array einsum; the result embedded "
        "into the tables of the uncontracted operand indices must equal numpy.tensordot of the embedded operands exactly, with the combined charge and the free legs' directions.",
   note="Trusted: numpy on small dense arrays; the harness embedding (mc/arrays.py embed); integer tags make equality exact. Bounded to PLANS in mc/checks/c02.py."),
 "C03": dict(engine="E-enum", design_ref="DESIGN.md 5 C03, 4.2",
   technique="exhaustive enumeration of fermionic pairs / single arrays x permutations / axes / modes on the real code; reference = independent Grassmann word model (inversion-count signs), exact integer tags",
   text="Every fermionic pair (a, b, axes) and single array of the bounded universe (<=3 indices per operand, <=3 charges per index; all directions, even and odd charges "
        "with both label orders, pending-sign tables, independent sparsity) is run through the real tensordot (fused / blockwise / auto, autoray, int axes), @, transpose (every "
        "permutation), trace and einsum and compared element for element - plus charge, directions and remaining labels - with the word-model reference in mc/ref_graded.py. "
        "This covers exhaustively the clause 'all small index structures' of the quantifier; the 'randomly beyond' clause is sampling and is not claimed. Permutations are also spelled with negative axes (same result or a refusal).",
   note="Trusted: the word model as specification of graded semantics ((bra,ket) adjacency = +1, (ket,bra) = -1; labels left of the axes); numpy; integer tags."),
 "C05": dict(engine="E-enum", design_ref="DESIGN.md 5 C05, 4.4",
   technique="exhaustive enumeration of arrays x ordered disjoint axis groupings x strategies x cache settings on the real fuse / unfuse; reference = layout rebuilt by the harness from the fused index's own sub-index table, exact integer tags",
   text="Every array of the bounded universe (abelian and fermionic, n<=4, every sparsity pattern on the small tiers) is fused by the real code for every sequence of "
        "disjoint ordered axis groups (single-axis, non-adjacent, permuted, nested on an already fused axis), with strategies insert and concat and the fuse cache on and off. "
        "The fused index's own table is audited (signed combination, extent sizes, direction of the first axis, sub-indices) and the fused blocks must equal, element for "
        "element, the layout that table prescribes; both strategies / cache settings must agree exactly; unfusing must restore every block bit for bit (fermionic: the R-graded transpose). "
        "Also: the conjugate taken after the fuse fused with the same groups (audited against its own tables), fuse -> conj -> unfuse, and empty groups (ignored / expanded to a singlet axis). Arrays whose blocks differ in element type are fused with both strategies (nothing may be lost).",
   note="Trusted: numpy transpose/reshape on tagged blocks; the R-graded transpose for the fermionic round trip. Fermionic concat strategy is not reachable through the public fuse and is not covered."),
 "C07": dict(engine="E-enum", design_ref="DESIGN.md 5 C07",
   technique="exhaustive enumeration of shapes x merge/drop targets for the axis-matching routine against a plan interpreter, and of real arrays x targets x the trip back with exact integer tags",
   text="(a) calc_reshape_args is run on every shape with <=5 axes over sizes {1,2,3,4,6} and every target reachable by merging adjacent axes and dropping size-one axes, and on the "
        "reverse trip with the sub-sizes the forward plan produces; a plan interpreter executes (unfuse, fuse groupings, expand) on the abstract shape and must land exactly on the target "
        "with contiguous, disjoint, in-range groups. (b) Real abelian and fermionic arrays (axis sizes 1-3, size-one axes with zero and non-zero charge, a pre-fused variant, sparsity patterns) "
        "are reshaped to every such target and back: rank, no axis larger than requested, same multiset of non-zero magnitudes, charge, exact restoration of blocks and index tables, identity on the current shape. The conjugate taken after a merge makes the same trip (merge, back) and must come back unchanged.",
   note="Trusted: numpy; tags make content comparison exact. Known finding: all-size-one array -> () raises IndexError (listed in known_findings.json)."),
 "C08": dict(engine="E-enum", design_ref="DESIGN.md 5 C08",
   technique="exhaustive enumeration of abelian arrays / block vectors x operation x argument menu x entry point on the real code; reference = numpy on the harness's dense embedding, exact",
   text="Every abelian array of the bounded universe (n<=3, all directions, charges, sparsity patterns, real and complex) is run through every operation of the statement "
        "(every permutation, conj, dagger/H/T, squeeze, expand_dims with every position / charge / direction option, scalar and array arithmetic with a second operand of independent "
        "sparsity, multiply_diagonal on every axis with each vector charge missing, sum, norm, abs, sqrt) via the method, the symmray function and autoray.do; block vectors over every "
        "charge subset through all arithmetic (reflected and power forms) and every exported elementwise function. The dense form of each result must equal the numpy operation on the "
        "dense operands exactly; a raise is a tallied refusal; the three entry points must agree in outcome. Axes are also spelled with negative numbers (transpose, squeeze, expand_dims): the dense result or a raise, never another array.",
   note="Trusted: numpy ufuncs; harness embedding. norm uses rel. tolerance 1e-12. log/log2/log10 raise (RecursionError) on every entry point: tallied as refusals, consistent across entry points."),
 "C16": dict(engine="E-enum", design_ref="DESIGN.md 5 C16",
   technique="exhaustive enumeration of classes x symmetry-argument variants x index structures x charges x stored sectors x dense labelings on the real constructors; reference = the harness's own expectation and projection",
   text="For every symmetry, abelian and fermionic, every index structure with n<=3, direction pattern, total charge and stored-sector pattern, the direct constructor, from_blocks, from_fill_fn, "
        "random and from_dense (classmethod and utils helper) are called on the static class and on the dynamic class with the symmetry as string / object / omitted / mismatching, with the "
        "charge given and omitted, and each result is compared (symmetry, charge, index tables, sectors, blocks, dtype) with the harness's expectation; calls that must be refused must raise. "
        "Dense arrays under sorted, reversed, interleaved and seeded per-axis labelings are converted to blocks and compared with the harness's projection onto the conserving sectors "
        "(reordered by charge, original position); to_dense is compared with the harness embedding (fermionic structures carry pending signs; also for arrays whose blocks have differing element types, narrow type stored first or last); non-zero entries outside the conserving sectors are ignored / refused as documented; two arrays built from one caller mapping must not alias it. from_dense is also run on every arrangement of 3-4 positions of one charge among 5-7 positions of an axis (vectors and matrix rows).",
   note="Trusted: harness embedding / projection. from_blocks is compared on the charges that occur in the given blocks (it cannot know others)."),
 "C01": dict(engine="E-bfs", design_ref="DESIGN.md 5 C01, 4.3, 2.4",
   technique="explicit-state breadth-first search over operation sequences on the real objects, states canonicalised by structure key, independent validity audit evaluated on every transition's results",
   text="From ~10^4 root arrays (all five symmetries; abelian and fermionic; dynamic, static and symmetry-object classes; n<=3; every direction pattern, charges, sparsity, pending signs, labels) "
        "and block vectors, the whole public operation catalogue (~100 argument choices per state: structure, fuse/unfuse/reshape in both strategies, contraction in both modes, einsum/trace, "
        "arithmetic, reductions, phase operations, qr/svd/svd_truncated/eigh/solve through methods, symmray functions and autoray) is applied breadth-first; every member of every returned "
        "tuple is audited by an independent re-implementation of 'valid array' and becomes a successor state. Depth 2 is explored completely in quick (10^7 transitions, ~10^6 distinct "
        "structure states), depth 3 in thorough under a reported cap. This reaches derived inputs (nested / conjugated sub-index info, dropped charges, truncated factors) that no constructor gives.",
   note="Trusted: mc/audit.py + mc/groups.py as the definition of validity. Merging states with equal structure keys assumes data obliviousness. Known finding: expand_dims(c=odd) on fermionic arrays."),
 "C14": dict(engine="E-bfs", design_ref="DESIGN.md 5 C14",
   technique="explicit-state search (depth 2) over operation pairs on shared, read-only-frozen operands with bit-exact before/after snapshots; in-place vs out-of-place differential",
   text="Every catalogue operation is applied to every root (abelian, fermionic with pending signs and labels, block vectors; n<=3) whose blocks are marked read-only and whose complete observable "
        "state (block bytes and order, index tables incl. sub-index info, charge, sign table in order, labels) was snapshotted by the harness; then every operation - out-of-place and in-place - is applied "
        "to every array result of every first operation (these share memory with the root): root and intermediate must stay bit-identical, any write through a view raises at the faulty line. "
        "For each operation with an in-place form (the inplace flag, and the augmented assignments += -= *= /=), the in-place call on a copy must return the copy itself and equal the out-of-place result exactly.",
   note="Trusted: numpy's writeable flag and shares_memory; harness snapshot. Documented mutators are exercised on a library copy."),
 "C09": dict(engine="E-bfs", design_ref="DESIGN.md 5 C09",
   technique="explicit-state breadth-first search over the product of a lazy run and its synchronised twin on the real objects; invariant = equal observations in every product state",
   text="Every fermionic root (all symmetries, n<=3, every direction pattern, even / odd with label, sparsity, every pending-sign subset for n<=2 and probes for n=3) is paired with a "
        "harness-made twin whose signs are multiplied in. Every catalogue operation is applied to both with identical arguments, and binary operations with all four lazy/synced operand "
        "combinations; successors keep the lazy branch un-synchronised so signs stay pending over several operations. In every product state the observations must agree: dense value with "
        "signs applied by the harness, index tables, charge, labels, scalars, vectors; decompositions through spectra and reconstructed products; phase_sync must clear the table, apply each sign "
        "exactly once and be idempotent.",
   note="Trusted: harness embedding with harness-applied signs. Raw-storage accessors (get_params, set_params, apply_to_arrays, blocks) are excluded: they expose storage by design. Boolean results of isfinite are not expanded."),
 "C20": dict(engine="E-enum", design_ref="DESIGN.md 5 C20",
   technique="exhaustive enumeration of dtypes x operation catalogue x arrays with missing sectors on the real code (depth 1, and depth 2 behind structure-creating operations); oracle = dtype rule + double-precision differential run",
   text="For float32, float64, complex64 and complex128, every catalogue operation (both fuse strategies, both contraction modes, fill_missing_blocks, densification, decompositions, arithmetic, phase "
        "operations, through methods / symmray functions / autoray) is applied to abelian arrays, fermionic arrays with pending signs and block vectors whose sparsity forces zero-block creation, and "
        "every core operation again to every result of the structure-creating ones. Every block of every result must carry the operand's dtype (the real counterpart for singular values, eigenvalues, "
        "abs, norm), the value must match the same call in double precision, numpy's ComplexWarning is turned into an error so a discarded imaginary part cannot pass silently, a complex diagonal on real data must promote to the complex counterpart, and 2- and 4-index structures are run in float64 first and then in another dtype within one process so that a plan cached for one element type is re-used for another. Creation: random / utils.get_rand for every dtype x distribution x scale / offset given as python float, numpy float64 / float32 scalar or 0-d array must give blocks of the requested type.",
   note="Trusted: numpy promotion rules as reference for 'same type'. Arrays without blocks carry no dtype and are skipped. Decomposition values are judged in C11/C12."),
 "C11": dict(engine="E-enum", design_ref="DESIGN.md 5 C11",
   technique="exhaustive enumeration of matrix structures (charge subsets x block-shape patterns x directions x charges x sparsity x pending signs x dtype) on the real qr/svd/eigh/solve; oracle = reconstruction through the library's own contraction + blockwise structural laws",
   text="Every matrix structure of the bounded universe - direct matrices with tall, wide, square, 1xk and rank-one blocks and every small 3-index array fused to a matrix in six ways; abelian and "
        "fermionic with pending signs; all four direction patterns; every total charge; missing blocks; real and complex - is decomposed by qr, stabilised qr (both spellings), svd, eigh (Hermitian "
        "charge-zero matrices) and solve (every right-hand-side charge), via symmray.linalg and autoray. Products rebuilt with the library's tensordot / multiply_diagonal must equal the input in the harness "
        "embedding; Q/U blocks must have orthonormal columns, V-dagger orthonormal rows, R upper triangular (non-negative real diagonal when stabilised), s non-negative non-increasing per charge; the bond must have "
        "opposite directions, one charge per input block with size min(shape); factor charges, outer indices and validity (R-audit) are checked; a.x == b with the right charge and index. Block fills include rank-one, exactly zero columns / blocks, complex symmetric and complex diagonal square blocks; Hermitian fills include antidiagonal-only and diagonal-only blocks.",
   note="Trusted: LAPACK through numpy on small blocks; tolerance 1e-8..1e-9; block values are seeded Gaussians (structure is what is enumerated)."),
 "C12": dict(engine="E-enum", design_ref="DESIGN.md 5 C12",
   technique="same exhaustive matrix-structure enumeration as C11; oracle = numpy.linalg on the harness's dense embedding",
   text="For every matrix of the C11 universe the multiset of singular values returned by svd and by svd_truncated asked not to truncate (defaults, cutoff 0, bond limit beyond the rank; symmray and autoray entry points) must equal the non-zero singular values of the dense embedding (abelian and fermionic), norm() the dense "
        "Frobenius norm; for abelian Hermitian charge-zero matrices the returned eigenvalues must equal the dense eigenvalues on the stored sectors, and solve(a, b) embedded must equal "
        "numpy.linalg.solve on the embedded square system.",
   note="Trusted: numpy.linalg on the dense embedding, tolerance 1e-8; singular values below 1e-8*s_max count as zero on both sides."),
 "C13": dict(engine="E-enum", design_ref="DESIGN.md 5 C13, 4.5",
   technique="exhaustive enumeration of cutoff mode x decision interval x bond limit x absorb option over matrices with designed spectra on the real svd_truncated; reference = the truncation rule R-trunc",
   text="Matrices are assembled blockwise from known singular values spread over 1-3 charges (several menus incl. exactly zero blocks and a rank-deficient block, plus ties), for all direction patterns, even / odd charge, abelian / fermionic with pending signs, "
        "real / complex. For each, all six cutoff modes x a cutoff inside every decision interval (and two beyond the total weight) x every bond limit from 1 to rank+1 and none x every absorb "
        "option are run: kept values must be exactly the largest ones the rule permits, every kept >= every discarded, the kept count must not grow with the cutoff, with no cutoff the bond equals the limit "
        "split over charges keeping each charge's largest, |x - U s V|^2 must equal the discarded weight, the absorb variants must give the same product, and the truncated factors must be valid "
        "with matching bond tables and emptied charges removed. Every returned factor must also be usable (to_dense, phase_sync, U @ VH) whenever the bond is non-empty.",
   note="Trusted: designed spectra (cross-checked against numpy's dense svd); cutoffs are placed at midpoints between thresholds; latitude: where the rule permits no value, none or only the largest are accepted."),
 "C06": dict(engine="E-enum", design_ref="DESIGN.md 5 C06",
   technique="exhaustive enumeration of contractible pairs x axes on the real code, each contracted along every route (direct in 3 modes; align + fuse contracted axes with both fuse strategies + single-pair contraction in 2 modes; free legs fused beforehand in 2 modes) with an exact differential comparison",
   text="For every pair (a, b, axes) with at least one contracted pair in the bounded universe (abelian and fermionic with even / odd charges, labels and pending signs; independent sparsity and "
        "block order on the operands, every axis placement and listing order) the direct blockwise result is the reference; the fused and auto strategies must return the same array (rank, charge, "
        "directions, labels, index tables, values); aligning with align_axes, fusing the contracted axes on both operands (insert and concat) and contracting the single fused pair (both modes) must "
        "give the same value; fusing an operand's free legs beforehand must give a result on which that leg is still fused and which equals the direct result after unfusing.",
   note="Trusted: integer tags + harness embedding; blockwise contraction as the differential reference (its absolute correctness is C02/C03's subject)."),
 "C04": dict(engine="E-bfs", design_ref="DESIGN.md 5 C04",
   technique="explicit-state exploration of all contraction routes of small networks on the real code (states = sets of partially contracted tensors, deduplicated by contraction tree) used as a confluence check, plus the one-shot R-graded network value as absolute reference; exhaustive label-algebra sub-check",
   text="For every network of 2-3 fermionic tensors (pairs, chains, triangles, with 0-2 dangling legs; 4-chains / 4-cycles sliced in quick) over every bond orientation, dangling direction, even/odd "
        "charge assignment, assignment of distinct labels to the odd tensors in every order, two index tables, sparsity probes and pending signs, every contraction route is executed: every pair "
        "order, both operand orders, every listing order of the shared legs, fused and blockwise modes, fermionic pre-transposes, all-at-once versus one-leg-then-einsum-trace. All terminal values "
        "(after a fermionic transpose to a canonical leg order) must be exactly equal, carry equal labels, charge and directions, and equal the word-model evaluation of the whole network. "
        "Separately every pair of label tuples (lengths 0-3, labels 1-4, both directions) is driven through the public outer product against the word sign, and the label order is checked to be a strict total order. Every vector.vector / matrix.vector / matrix.matrix step of a route is repeated through the @ entry point and compared with the tensordot step.",
   note="Trusted: R-graded network evaluation; integer tags. With conjugate labels on the two operands the remaining labels are compared in the fully annihilated normal form (the library annihilates a pair only when it becomes adjacent)."),
 "C10": dict(engine="E-enum + E-bfs", design_ref="DESIGN.md 5 C10",
   technique="exhaustive enumeration of fermionic arrays x phase_dual for the adjoint laws (exact Gaussian-integer arithmetic, R-graded bra as reference) and route exploration of doubled bra-ket networks on the real code",
   text="For every fermionic array of the bounded universe (n<=3, all directions, even / odd with label, sparsity, pending signs, complex and real tags) and both values of phase_dual: conj equals the "
        "R-graded bra; <conj x, x>, <x, conj x> and the dagger forms with reversed axes equal the harness-computed squared norm whenever all indices are kets or phase_dual is set; conj.conj and "
        "dagger.dagger are the identity; dagger(pd) equals conj(pd) followed by the fermionic reversal. For 2-3 tensor networks with dangling legs (every bond orientation, dangling direction, parity / label "
        "assignment) the network is conjugated tensor by tensor with defaults, the bra-like dangling legs are phase-flipped, and <psi|psi> is contracted along every route (2 tensors) / every linear order "
        "from every starting pair plus ket-net x bra-net joins (3 tensors): the value must equal the squared norm of the contracted ket network and no label may remain.",
   note="Trusted: R-graded conj; exact integer arithmetic for norms. The norm law is demanded as stated (all kets, or phase_dual=True)."),
 "C18": dict(engine="E-enum", design_ref="DESIGN.md 5 C18, 4.7",
   technique="exhaustive enumeration of operator strings x basis layouts on the real element builder, and of charge-conserving operators x unit state tensors on the real operator arrays; reference = Jordan-Wigner matrices (R-fock)",
   text="(A) Every operator string of length 0 (the constant term) to 4 over two modes (341), alone and summed with every string of the same net effect, on every basis layout (two one-mode sites with every subset/order of the "
        "occupation states; one two-mode site with every order of the four states, both operator orders in the doubly occupied state and every 2-/3-state subset), and strings of length <=3 over three "
        "modes on three sites, given as FermionicOperators and as (label, symbol) pairs: the computed elements must equal the Jordan-Wigner vacuum expectation values. (B) For Z2, U1 (spinless and "
        "spinful maps), Z2Z2 and U1U1, complete and incomplete bases, 1-2 sites: the matrix of psi -> tensordot(G, psi) measured on the unit state tensor of every basis state (every total charge, odd ones "
        "with a label) must equal S.H.S for one diagonal sign matrix S solved from a generic connected reference operator - for every charge-conserving normal-ordered string of length 2 and 4, its "
        "Hermitian completion (Hermitian matrix, exact spectrum), products of operator arrays versus the array of the product operator, constant terms (energy shifts), coefficient types (complex amplitudes in Hermitian term sets, python / numpy integers and float32 in front of fractions), and the five model builders with several parameter sets. One site carrying three modes with its eight states in two scrambled orders is included (unevenly spaced charge positions).",
   note="Trusted: Jordan-Wigner matrices as the meaning of second quantisation; tolerance 1e-9..1e-12. Only charge-conserving operators can be represented and are exercised."),
 "C19": dict(engine="E-enum", design_ref="DESIGN.md 5 C19",
   technique="exhaustive enumeration of labelled simple graphs x edge-listing / labelling / coefficient-form variants on the real Hamiltonian builders; reference = the lattice Hamiltonian as Jordan-Wigner matrices on all lattice modes",
   text="For every labelled simple graph on 2-5 sites (1094 graphs; spinless 6-site graphs sliced in thorough), with edges listed in ascending, descending and mixed orientation and two list orders, "
        "sites labelled by ints, tuples and strings (plus labelings whose natural, string and listing orders differ: two-digit and negative ints, tuples with such coordinates, numbered strings), and coefficients given as scalars, dicts keyed in the reversed orientation and callables with bond- and site-dependent values, the two-site arrays "
        "returned by the spinless (Z2, U1) and spinful (Z2, U1, Z2Z2, U1U1) builders are read out with the documented charge maps, lifted to full-lattice operators and summed; the sum must equal "
        "sum_bonds(-t hop + V n n) + sum_sites(U n_up n_down - mu n) exactly once per bond and per site. The caller's coefficient dicts must be unchanged by a build, and a second build after they were updated in place must use the new values. parse_edges_to_site_info is checked on the same inputs: one bond name per edge on exactly its two ends with "
        "opposite directions, coordination = degree, consistent lengths.",
   note="Trusted: Jordan-Wigner reference; conversion factor (-1)**(p(i')p(j')) between the documented element convention and the true dual basis (validated against C18). quimb-based builders (tfim, heisenberg) need a package that is not installed."),
 "C15": dict(engine="E-hist + E-sched", design_ref="DESIGN.md 5 C15",
   technique="explicit-state search over call histories of the process-wide caches (deduplicated by recorded cache contents) against cold cache-less reference results; exhaustive check of the default-mode context manager; stateless preemption-bounded exploration of real thread interleavings under a sys.settrace baton scheduler",
   text="(a) On a family of arrays that differ from a base array in exactly one attribute (one direction via conj of the same index object, one block size, one charge label, one missing sector, block order, "
        "total charge, symmetry object, sub-index structure with equal table, a twice-fused leg differing only in its innermost legs, the mere name of a charge over the box [-2,2], dtype) every history of up to 2 events over the full alphabet (~140 events) and up to 3 over a core alphabet is executed from a cold state "
        "under fuse-cache sizes 0, 1, 2, 8192 x sector limits 1, 512 (and through the environment variable in a fresh interpreter); the last result must equal that event's result in a cold, cache-less state. System "
        "state = ordered fuse-cache keys, argument sets seen by every lru_cache (recorded by wrapping), hash-memo flags of the shared index objects, default mode. (b) default_tensordot_mode: every initial mode x "
        "nesting <=2 x body outcome restores the mode and propagates the exception. (c) Ten two-thread scenarios on shared operands (same cache key cold, mutually evicting keys with maxsize 1, two different arrays with equal directions and groups, fused contractions, "
        "fuse vs reshape, svd_truncated vs fuse, fermionic lazy signs, eigh vs contraction of a shared matrix with pending signs) are run under every schedule with at most one preemption, scheduling points = every line of library code and every opcode in the cache / "
        "hash-memo / mode functions (~11k schedules): results must equal the sequential ones, operands stay bit-identical, no exception.",
   note="Trusted: the baton scheduler serialises threads (sequential consistency at line / opcode granularity); real parallelism inside numpy with the GIL released and free-threaded builds are not modelled. Per execution all caches are cleared and operands rebuilt so prefixes replay deterministically."),
}

_ALL = ["C%02d" % i for i in range(1, 21)]
NOT_APPLICABLE = {p: "check not built yet in this revision (planned: see DESIGN.md section 5)" for p in _ALL if p not in CHECKS}
